#!/bin/bash
# Replays every recorded finding (findings/<id>/*.json) against the current tree without the explorer.
# Every recorded finding is fixed by now (known_findings.json): none may reproduce.  exit 0 iff that is so.
cd "$(dirname "$0")/.." || exit 2
rc=0
for f in findings/*/*.json; do
  id=$(basename "$(dirname "$f")")
  out=$(./check "$id" --replay "$f" --json 2>/dev/null | grep '^{' | tail -1)
  sigs=$(echo "$out" | python3 -c "import json,sys; print(len(json.load(sys.stdin)['signatures']))" 2>/dev/null || echo "?")
  want_sig=$(python3 -c "import json; print(json.load(open('$f'))['signature'])")
  if [ "$sigs" = "0" ]; then echo "fixed, does not reproduce  $f"; else echo "REPRODUCES ($sigs signatures) $f :: $want_sig"; rc=1; fi
done
exit $rc
