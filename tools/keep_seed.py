#!/usr/bin/env python3
"""usage: tools/keep_seed.py <PID> <name> <needs> <detected-by text>  -- archive a confirmed seeded change under seeded/<name>/"""
import json, os, shutil, sys
pid, name, needs, det = sys.argv[1:5]
pre = os.environ.get("SEED_PREFIX", "seed")
src = f"/tmp/{pre}_{pid}"
dst = os.path.join(os.path.dirname(os.path.dirname(os.path.abspath(__file__))), "seeded", name)
os.makedirs(dst, exist_ok=True)
shutil.copy(f"/tmp/{pre}_{pid}.patch", os.path.join(dst, "patch.diff"))
shutil.copy(os.path.join(src, f"demo_{pid}.py"), os.path.join(dst, f"demo_{pid}.py"))
if os.path.exists(os.path.join(src, "notes.txt")):
    shutil.copy(os.path.join(src, "notes.txt"), os.path.join(dst, "notes.txt"))
conf = open(f"/tmp/confirm_{pre}_{pid}.log" if pre != "seed" else f"/tmp/confirm_{pid}.log").read().strip().splitlines()
json.dump(dict(property=pid, breaks=pid, origin="independent sub-agent given only the property text and a scratch worktree",
               needs_to_manifest=needs,
               confirmed=dict(commands=[f"tools/confirm_seed.sh {pid}  (demo with change / without change; 87 stable tests with change)"], output=conf),
               checks_run=[f"tools/mutant.sh seeded/{name}/patch.diff {pid} quick"], detected_by=det),
          open(os.path.join(dst, "meta.json"), "w"), indent=1)
print("kept", dst)
