#!/bin/sh
# usage: tools/mutant.sh <patch-file> <PROP> [tier]   -- runs the check of PROP against a scratch copy of
# /repo/hta with the patch applied (never touches /repo); evidence goes to a scratch dir too.
set -e
PATCH=$(readlink -f "$1"); PROP=$2; TIER=${3:-quick}
D=$(mktemp -d /tmp/htamut_XXXXXX)
trap 'rm -rf "$D"' EXIT
mkdir -p "$D/repo" "$D/ev"
cp -r /repo/hta "$D/repo/hta"
(cd "$D/repo" && patch -p1 -s < "$PATCH")
cd "$(dirname "$0")/.."
set +e
VERIF_REPO="$D/repo" VERIF_EVIDENCE_DIR="$D/ev" VERIF_REPLAY_DIR="$D/replays" /venv/bin/python -m mc.check "$PROP" --tier "$TIER"
RC=$?
if [ -n "$KEEP_REPLAYS" ] && [ -d "$D/replays" ]; then mkdir -p "$KEEP_REPLAYS"; cp -r "$D/replays/." "$KEEP_REPLAYS/"; fi
echo "exit=$RC"
