#!/bin/bash
# usage: tools/detection_matrix.sh [out-file]   -- runs every hand-made mutant and every seeded change against the quick
# tier of its property (scratch copies of /repo/hta; /repo is never touched) and writes one line per change.
cd "$(dirname "$0")/.." || exit 2
OUT=${1:-/tmp/detection_matrix.txt}
touch "$OUT"   # resumable: changes already listed with an exit code are skipped
export VERIF_MAX_CONFIRM=2
for f in mutants/*.patch seeded/*/patch.diff; do
  [ -f "$(dirname "$f")/patch_rebased.diff" ] && [ "$(basename "$f")" = "patch.diff" ] && f="$(dirname "$f")/patch_rebased.diff"
  case "$f" in
    mutants/*) name=$(basename "$f" .patch); prop=$(echo "$name" | cut -c1-3 | tr a-z A-Z);;
    *) name=$(basename "$(dirname "$f")"); prop=$(echo "$name" | cut -c1-3);;
  esac
  grep -q "^$name $prop exit=" "$OUT" && continue
  res=$(tools/mutant.sh "$f" "$prop" 2>&1 | grep -v "^KNOWN-FINDING" )
  ex=$(echo "$res" | grep -o "exit=[0-9]*" | tail -1)
  nv=$(echo "$res" | grep -o "new_violations=[0-9]*" | tail -1)
  first=$(echo "$res" | grep -m1 "^VIOLATION" | grep -o "signature=[^ ]*")
  echo "$name $prop $ex $nv $first" | tee -a "$OUT"
done
