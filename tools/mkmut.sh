#!/bin/sh
# usage: tools/mkmut.sh <name> <file-relative-to-repo> <python-expr: old|||new>   (exact string replacement, first occurrence or all with ALL=1)
set -e
NAME=$1; F=$2; SPEC=$3
D=$(mktemp -d /tmp/mkmut_XXXXXX); trap 'rm -rf "$D"' EXIT
mkdir -p "$D/a" "$D/b"; cp -r /repo/hta "$D/a/hta"; cp -r /repo/hta "$D/b/hta"
python3 - "$D/b/$F" "$SPEC" <<'PY'
import sys,os
p,spec=sys.argv[1],sys.argv[2]
old,new=spec.split("|||")
s=open(p).read()
assert old in s, "pattern not found"
s=s.replace(old,new) if os.environ.get("ALL") else s.replace(old,new,1)
open(p,"w").write(s)
PY
(cd "$D" && diff -ru a/hta b/hta > "$OLDPWD/mutants/$NAME.patch" || true)
grep -c '^@@' mutants/$NAME.patch
