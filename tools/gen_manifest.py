#!/usr/bin/env python3
"""Regenerate /verif/MANIFEST.json from the property modules present in mc/props (static parse, no hta import)."""
import ast, json, os, re, sys
V = os.path.dirname(os.path.dirname(os.path.abspath(__file__)))
props = [json.loads(l) for l in open(os.path.join(V, "properties.jsonl"))]
NA_REASONS = json.load(open(os.path.join(V, "tools", "not_applicable.json"))) if os.path.exists(os.path.join(V, "tools", "not_applicable.json")) else {}
checks, na = [], []
for p in props:
    pid = p["id"]
    f = os.path.join(V, "mc", "props", pid.lower() + ".py")
    if not os.path.exists(f):
        na.append(dict(property_id=pid, reason=NA_REASONS.get(pid, "check not built yet (work in progress); nothing is claimed for this property")))
        continue
    tree = ast.parse(open(f).read())
    consts = {}
    for node in tree.body:
        if isinstance(node, ast.Assign) and len(node.targets) == 1 and isinstance(node.targets[0], ast.Name):
            try:
                consts[node.targets[0].id] = ast.literal_eval(node.value)
            except Exception:
                pass
    checks.append(dict(
        property_id=pid,
        quick_cmd=f"./check {pid} --tier quick",
        thorough_cmd=f"./check {pid} --tier thorough",
        evidence_file=f"/verif/evidence/{pid}.json",
        replay_cmd_template=f"./check {pid} --replay {{path}}",
        engine="mc",
        level_claimed=dict(category="model_checking",
                           text=consts.get("LEVEL_TEXT", "Every world of the stated bounded space (see evidence.coverage.rule/bounds) is enumerated and the real HTA code is run on each one and compared with an independent reference model; no sampling. The guarantee is exactly the bound: nothing is said about larger worlds or values outside the alphabet."),
                           design_ref=f"DESIGN.md section 2, {pid}"),
        level_note="; ".join(consts.get("ASSUMPTIONS", [])),
        technique=consts.get("TECHNIQUE", "bounded-exhaustive explicit-state enumeration against a reference model"),
    ))
m = dict(
    version=1,
    setup_cmd="cd /verif && /venv/bin/python -c \"import sys; sys.path.insert(0,'/repo'); import hta, pandas, networkx; import mc.engine\"",
    hooks=dict(guard="HTA_VERIF", enable="no source hooks: all seams are installed by run-time monkeypatching from /verif/mc (HTA_VERIF=1 is exported by the harness but read nowhere in /repo)",
               baseline_off_cmd="cd /repo && /venv/bin/python -m pytest -ra -q -p no:cacheprovider --timeout=900 --continue-on-collection-errors",
               source_commits=[], add_only=True),
    engines=[dict(name="mc", path="/verif/mc", serves_properties=[c["property_id"] for c in checks],
                  kind_free_text="hand-written explicit-state / bounded-exhaustive explorer over real HTA code with owned nondeterminism (sort tie order, symbol numbering, worker schedules) and plain-Python reference models")],
    checks=checks,
    not_applicable=na,
    notes="See DESIGN.md. Checks import hta from $VERIF_REPO (default /repo) so they always run the current working tree. known_findings.json lists recorded/fixed defects.",
)
json.dump(m, open(os.path.join(V, "MANIFEST.json"), "w"), indent=1)
print("checks:", [c["property_id"] for c in checks], "na:", len(na))
