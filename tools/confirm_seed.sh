#!/bin/bash
# usage: tools/confirm_seed.sh <PID>   -- confirms a sub-agent's seeded change in its scratch worktree /tmp/seed_<PID>:
#   demo fails with the change, passes without it, and the 87 stable tests still pass with it.
P=$1; PRE=${SEED_PREFIX:-seed}; W=/tmp/${PRE}_$P; cd $W || exit 2
git diff -- hta > /tmp/${PRE}_$P.patch
[ -s /tmp/${PRE}_$P.patch ] || { echo "no change applied"; exit 2; }
PYTHONPATH=$W /venv/bin/python demo_$P.py > /tmp/${PRE}_$P.demo_with.log 2>&1; A=$?
git stash -q -- hta
PYTHONPATH=$W /venv/bin/python demo_$P.py > /tmp/${PRE}_$P.demo_without.log 2>&1; B=$?
git stash pop -q
PYTHONPATH=$W /venv/bin/python -m pytest -q -p no:cacheprovider --timeout=900 --continue-on-collection-errors --junitxml=/tmp/${PRE}_$P.junit.xml tests > /tmp/${PRE}_$P.pytest.log 2>&1
SEED_PREFIX=$PRE python3 - "$P" <<'PY'
import json,sys,xml.etree.ElementTree as ET
P=sys.argv[1]
stable=set(json.load(open('/root/.vp/BASELINE.json'))['stable_pass'])
ok=set()
for tc in ET.parse('/tmp/'+__import__('os').environ.get('SEED_PREFIX','seed')+f'_{P}.junit.xml').getroot().iter('testcase'):
    if not any(c.tag in('failure','error','skipped') for c in tc):
        ok.add(f"{tc.get('classname')}::{tc.get('name')}")
missing=sorted(stable-ok)
print("stable tests passing:",len(stable&ok),"of",len(stable),"missing:",missing[:5])
PY
echo "demo_with_change_exit=$A demo_without_change_exit=$B"
