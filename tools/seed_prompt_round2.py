import sys,json,glob,os
pid=sys.argv[1]
base=open(f'/tmp/seed_prompt_{pid}.txt').read() if os.path.exists(f'/tmp/seed_prompt_{pid}.txt') else None
import subprocess
if base is None:
    base=subprocess.check_output(['python3','/tmp/seed_prompt.py',pid]).decode().replace('--timeout=900 tests','--timeout=900 --continue-on-collection-errors tests')
base=base.replace(f'/tmp/seed_{pid}', f'/tmp/seed2_{pid}')
prev=[]
for d in glob.glob(f'/verif/seeded/{pid}_*'):
    m=json.load(open(os.path.join(d,'meta.json')))
    prev.append(f"- {os.path.basename(d)} (manifests when: {m['needs_to_manifest']})")
extra="\n\nIMPORTANT - earlier attempts already used the following ideas for this property; yours must use a DIFFERENT mechanism in a different place of the code and a different kind of trigger (prefer: interactions between two code sites, unusual-but-legal inputs such as several host threads/processes, several ranks, events with missing optional fields, repeated calls on the same object, unusual parameter values, ties between three or more events, events out of time order in the file):\n"+"\n".join(prev)+"\n"
print(base+extra)
