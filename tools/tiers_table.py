#!/usr/bin/env python3
"""Print the 'measured quick tiers' table of DESIGN.md section 6.2 from evidence/*.json."""
import glob, json, os
here = os.path.dirname(os.path.dirname(os.path.abspath(__file__)))
print("| id | states | transitions | real-code runs | non-trivial | wall |")
print("|----|--------|-------------|----------------|-------------|------|")
for f in sorted(glob.glob(os.path.join(here, "evidence", "C*.json"))):
    e = json.load(open(f)); c = e["coverage"]
    fmt = lambda n: f"{int(n):,}".replace(",", " ")
    nt = c.get("distinct_nontrivial", "")
    print(f"| {e['property_id']} | {fmt(c['states'])} | {fmt(c['transitions'])} | {fmt(c['traces_validated_against_impl'])} | "
          f"{fmt(nt) if nt != '' else ''} | {e['wall_s']:.0f} s |")
