"""C11 - symbol ids are a stable bijection; results ignore id numbering and parse order."""
from __future__ import annotations

import itertools
import json
import os
import subprocess
import sys
from typing import Any, Dict, Iterator, List

from mc import kineto

ID = "C11"
TECHNIQUE = ("explicit-state BFS over symbol-table operation histories incl. every queue interleaving of "
             "add_symbols_mp (virtual pool/queue running the real collectors); exhaustive symbol numberings "
             "(all n! set orders, a superset of all hash seeds) x virtual-pool completion orders x rank/file "
             "assignments on the real multi-rank parser; result-bundle equality across numberings/schedules, plus "
             "real PYTHONHASHSEED / real fork-pool conformance runs")
RULE = ("(a) closure of the reachable states of TraceSymbolTable under {add_symbols(every ordered batch of <=2 of "
        "4 symbols), clone, combine, observe cached series, add_symbols_mp(partitions x every interleaving of the "
        "workers' puts)} from every reachable state (state = table content + cached-series content); (b) R in {2,3} "
        "rank files with different vocabularies x symbol numberings (every permutation of one rank's vocabulary with "
        "the others sorted or reversed; thorough: full products) x {sequential, virtual pool with every completion "
        "order and worker count} x every rank<->file assignment: rows decode to the file's strings; (b') the ranks are "
        "added to one Trace in every sequence of steps (ordered partitions; parse_single_rank or parse_multiple_ranks), ids must not move and every loaded rank must decode after every step; (c) corpus of "
        "2-rank traces: result bundle of 16 getters identical across numberings (sorted, reversed, rotations, "
        "adjacent transpositions, every symbol moved to id 0, per rank), parse modes and completion orders, and identical to separate-process "
        "runs under 4 PYTHONHASHSEED values with the real fork pool. non-trivial = numbering or order differs "
        "from the baseline run")
ASSUMPTIONS = [
    "workers of the real pool are separate processes: tasks share nothing but the manager queue, so the behaviours "
    "of add_symbols_mp are exactly the interleavings of the per-worker put sequences (what the virtual queue "
    "enumerates); Pool.map returns results in input order whatever the completion order",
    "set iteration order is the only channel through which the hash seed reaches HTA",
]
REAL_SCHED_PREFIXES = ("seedrun/",)
E0 = 1_700_000_000_000_000
SYMS = ["a", "b", "c", "d"]


def bounds(tier: str) -> Dict[str, Any]:
    return dict(full_product=(tier != "quick"), seeds=4, chunk=4, corpus=len(CORPUS))


# ------------------------------------------------------------------ (b) templates
def tmpl(k: int, base: int) -> List[Dict[str, Any]]:
    if k == 0:
        return [kineto.cpu_op("aten::a", base, 9, ext=0), kineto.kernel("k1", base + 2, 3, 7, 5)]
    if k == 1:
        return [kineto.cpu_op("aten::b", base + 1, 9, ext=0), kineto.cpu_op("aten::a", base + 2, 2, ext=1),
                kineto.kernel("k2", base + 3, 1, 7, 6)]
    if k in (4, 5):  # ~75 rank-specific names each: every rank fits an 8-bit id range, their union does not
        evs = [kineto.cpu_op("aten::a", base + 1, 400, ext=0)]
        for j in range(75):
            evs.append(kineto.cpu_op(f"aten::rank{k}_op{j}", base + 2 + 4 * j, 3, ext=j + 1))
        evs.append(kineto.kernel(f"k{k}", base + 9, 3, 7, 5))
        return evs
    if k == 3:  # vocabulary = superset of template 0's and of template 1's
        return [kineto.cpu_op("aten::b", base + 1, 12, ext=0), kineto.cpu_op("aten::a", base + 2, 2, ext=1),
                kineto.kernel("k2", base + 5, 1, 9, 6), kineto.kernel("k1", base + 7, 3, 7, 5)]
    return [kineto.cpu_op("aten::a", base + 3, 2, ext=0), kineto.annotation("X", base + 6, 2), kineto.meta_event(base)]


def vocab(evs) -> List[str]:
    s = set()
    for e in evs:
        if e.get("dur") is not None and e.get("cat"):
            s.add(e["cat"])
            s.add(e["name"])
    return sorted(s)


# ------------------------------------------------------------------ (c) corpus
def corpus_trace(k: int, rank: int) -> List[Dict[str, Any]]:
    b = E0 + 3 * rank
    evs = [kineto.cpu_op("aten::root", b, 5, ext=0)]
    c = 100 * (rank + 1)
    if k % 4 in (0, 1):
        evs += [kineto.step(5, b + 10, 40), kineto.step(6, b + 50, 40)]
    if k % 4 == 1:
        evs += [kineto.step(8, b + 90, 20)]
    t = b + 11
    names = ["void kern_a(float*)", "ncclKernel_AllReduce_RING_LL_Sum_float(ncclWorkElem)", "kern_b", "Memcpy DtoD (Device -> Device)"]
    for j in range(2 + k % 3):
        nm = names[(j + k + rank) % 4]
        if nm.startswith("Memcpy"):
            evs.append(kineto.runtime("cudaMemcpyAsync", t, 2, c))
            evs.append(kineto.memcpy(nm, t + 3 + (k % 2), 4, 9, c, bw=0.5 + j))
        else:
            evs.append(kineto.cpu_op(f"aten::op{j % 2}", t - 1, 4, ext=c + 50))
            evs.append(kineto.runtime("cudaLaunchKernel", t, 2, c))
            evs.append(kineto.kernel(nm, t + 2 + j, 3 + ((k + j) % 3), 7 if "nccl" not in nm else 9, c))
        c += 1
        t += 12
    if k % 2:
        evs.append(kineto.gpu_annotation("anno_fwd", b + 12, 20, 7))
        evs.append(kineto.gpu_annotation("anno_bwd", b + 40, 9, 7))
    if k % 3 == 0:
        evs.append(kineto.runtime("cudaStreamSynchronize", t, 3, c))
        evs.append(kineto.cuda_sync("Stream Sync", t, 3, 7, c))
    if k == 8:
        # profiler steps emitted by two host threads, overlapping in time, with host events starting inside the overlaps
        evs = [e for e in evs if not e["name"].startswith("ProfilerStep")]
        for n, (s0, tid) in enumerate(((10, 100), (30, 101), (50, 100), (70, 101))):
            evs.append(kineto.step(20 + n, b + s0, 30, tid=tid))
        for n in range(4):
            evs.append(kineto.cpu_op("aten::overlap", b + 32 + 20 * n, 2, ext=500 + n, tid=102))
    evs.append(kineto.cpu_op("aten::tail", b + 95, 2, ext=1))
    return evs


CORPUS = list(range(9))
BUNDLE_PARTS = 8


def worlds(tier: str, stats: Dict[str, Any]) -> Iterator[Any]:
    b = bounds(tier)
    stats["transitions"] += 1
    yield dict(mode="hist")
    # (b)
    for tset in ([0, 1], [1, 2], [0, 3], [0, 1, 2]):
        R = len(tset)
        vocs = [vocab(tmpl(k, E0)) for k in tset]
        for ids in itertools.permutations([0, 1, 2, 7][: R + 1], R):
            if ids[0] > ids[-1] and R == 3:
                continue
            plans = []
            if b["full_product"] and tset == [0, 1]:
                for pa in itertools.permutations(range(len(vocs[0]))):
                    for pb in itertools.permutations(range(len(vocs[1]))):
                        plans.append([list(pa), list(pb)])
            else:
                for i in range(R):
                    allp = list(itertools.permutations(range(len(vocs[i]))))
                    if len(vocs[i]) > 5:   # 6! numberings of one rank: keep reversal, rotations and transpositions of neighbours
                        n_ = len(vocs[i])
                        ident = list(range(n_))
                        allp = [ident, ident[::-1]] + [ident[r:] + ident[:r] for r in range(1, n_)] + \
                               [ident[:q] + [ident[q + 1], ident[q]] + ident[q + 2:] for q in range(n_ - 1)]
                    for p in allp:
                        for other in ("sorted", "reversed"):
                            plans.append([list(p) if j == i else (list(range(len(vocs[j]))) if other == "sorted" else list(range(len(vocs[j])))[::-1])
                                          for j in range(R)])
            scheds = [None] + [[list(o), w] for o in itertools.permutations(range(R)) for w in range(1, R + 1)]
            for pi, plan in enumerate(plans):
                stats["transitions"] += 1
                # every numbering under sequential parse; schedules are enumerated on a rotating subset of numberings
                # in quick and on all of them in thorough
                for si, sc in enumerate(scheds):
                    if sc is not None and not b["full_product"] and (pi % 16) != (si % 16) and pi > 3:
                        continue
                    yield dict(mode="decode", tset=tset, ids=list(ids), plan=plan, sched=sc)
    stats["transitions"] += 2
    yield dict(mode="decode", tset=[4, 5], ids=[0, 1], plan=[None, None], sched=None)
    yield dict(mode="decode", tset=[5, 4], ids=[0, 3], plan=[None, None], sched=[[1, 0], 2])
    # (b') the ranks are added to one Trace object in several steps
    for tset in ([0, 1], [1, 2], [0, 1, 2]):
        ids = [0, 1, 2][: len(tset)]
        for steps in ordered_partitions(ids):
            for single in ((False, True) if any(len(st) == 1 for st in steps) else (False,)):
                for numbering in (None, "reverse"):
                    stats["transitions"] += 1
                    yield dict(mode="stepwise", tset=tset, ids=ids, steps=steps, single_api=single, numbering=numbering)
    # (c)
    for k in CORPUS:
        for part in range(BUNDLE_PARTS):
            stats["transitions"] += 1
            yield dict(mode="bundle", k=k, part=part)
    for s in range(b["seeds"]):
        for mp in (0, 1):
            stats["transitions"] += 1
            yield dict(mode="seedrun", seed_slot=s, mp=mp)


def worker_init() -> None:
    from mc import nondet

    nondet.install()
    nondet.install_symbol_seam()


# ------------------------------------------------------------------ (a)
def hist_bfs() -> Dict[str, Any]:
    import collections
    import hta.common.trace_symbol_table as tsm
    from hta.common.trace_symbol_table import TraceSymbolTable
    from mc import nondet

    viol: List[Any] = []
    batches = [[]] + [[x] for x in SYMS[:3]] + [[x, y] for x in SYMS[:3] for y in SYMS[:3]]
    parts = [[["a"], ["b"]], [["a", "b"], ["b", "c"]], [["c"], ["a"], ["c", "b"]], [["d", "a", "d"]], [["b"], []]]
    ops: List[Any] = [("add", b_) for b_ in batches] + [("clone",), ("observe",), ("combine", ["c", "a"]), ("combine", ["d"])]
    for p in parts:
        for m in nondet.merges([len(x) for x in p]):
            ops.append(("mp", p, m))

    def build(hist):
        st = TraceSymbolTable()
        ref: List[str] = []
        for op in hist:
            st, ref = apply(st, ref, op)
        return st, ref

    def apply(st, ref, op):
        ref = list(ref)
        if op[0] == "add":
            st.add_symbols(list(op[1]))
            for s in op[1]:
                if s not in ref:
                    ref.append(s)
        elif op[0] == "clone":
            orig = st
            st = TraceSymbolTable.clone(orig)
            st._verif_origin = (orig, list(orig.sym_table))
        elif op[0] == "observe":
            st.get_sym_index_series()
            st.get_sym_table_series()
        elif op[0] == "combine":
            if hasattr(st, "_verif_origin"):
                pass
            other = TraceSymbolTable()
            other.add_symbols(op[1])
            st = TraceSymbolTable.combine_symbol_tables([st, other])
            for s in op[1]:
                if s not in ref:
                    ref.append(s)
        elif op[0] == "mp":
            vm = nondet.VirtualMP(merge=list(op[2]), workers=len(op[1]))
            saved = tsm.mp
            tsm.mp = vm
            try:
                st.add_symbols_mp([list(x) for x in op[1]])
            finally:
                tsm.mp = saved
            pos = [0] * len(op[1])
            for w in op[2]:
                s = op[1][w][pos[w]]
                pos[w] += 1
                if s not in ref:
                    ref.append(s)
        return st, ref

    def key(st):
        return (tuple(st.sym_table), tuple(st._sym_table_series), tuple(st._sym_index_series.index), hasattr(st, "_verif_origin"))

    def invariants(st, ref, prev_table, hist):
        tab = st.get_sym_table()
        idx = st.get_sym_id_map()
        if list(tab) != ref:
            viol.append(("history/table-differs-from-reference-model", dict(history=hist, got=list(tab), expected=ref)))
        if len(idx) != len(tab) or any(idx.get(s) != i for i, s in enumerate(tab)) or len(set(tab)) != len(tab):
            viol.append(("history/not-a-bijection", dict(history=hist, table=list(tab), index=dict(idx))))
        if list(tab[: len(prev_table)]) != list(prev_table):
            viol.append(("history/assigned-id-changed", dict(history=hist, before=list(prev_table), after=list(tab))))
        if hasattr(st, "_verif_origin"):
            o, otab = st._verif_origin
            if list(o.sym_table) != otab or len(o.sym_index) != len(otab) or any(o.sym_index.get(x) != i for i, x in enumerate(otab)):
                viol.append(("history/clone-aliases-its-source", dict(history=hist, source_table=list(o.sym_table), source_index=dict(o.sym_index))))
        ser = st.get_sym_table_series()
        ids = st.get_sym_index_series()
        if list(ser) != list(tab) or {k: int(v) for k, v in ids.items()} != dict(idx):
            viol.append(("history/cached-series-stale", dict(history=hist, series=list(ser), table=list(tab))))

    seen = {}
    init, _ = build([])
    seen[key(init)] = []
    frontier = collections.deque([[]])
    trans = 0
    while frontier:
        hist = frontier.popleft()
        for op in ops:
            st, ref = build(hist)          # fresh object, history replayed
            prev = list(st.sym_table)
            pre_key = key(st)
            st2, ref2 = apply(st, ref, op)
            trans += 1
            h2 = hist + [list(op)]
            k_before_obs = key(st2)
            invariants(st2, ref2, prev, h2)
            if k_before_obs not in seen:
                seen[k_before_obs] = h2
                frontier.append(h2)
            if len(viol) > 20:
                break
        if len(viol) > 20:
            break
    return dict(viol=viol, states=len(seen), transitions=trans)


# ------------------------------------------------------------------ (b), (c) helpers
def load_with(ranks_events: Dict[int, List[Dict[str, Any]]], plan, sched, names=None, then=None):
    """load through Trace.load_traces under a symbol-numbering plan and a (virtual) pool schedule"""
    import hta.common.trace as trace_mod
    from hta.common.trace import Trace
    from hta.trace_analysis import TraceAnalysis
    from mc import htaenv, nondet

    sc = htaenv.scratch()
    d = sc.fresh()
    try:
        for i, (r, evs) in enumerate(ranks_events.items()):
            fn = (names[i] if names else f"f{i}") + ".json"
            kineto.write_file(os.path.join(d, fn), kineto.trace_dict(evs, r))
        nondet.SYM.begin(plan)
        saved = trace_mod.mp
        vm = None
        try:
            if sched is not None and sched != "real":
                vm = nondet.VirtualMP(completion=sched[0], workers=sched[1])
                trace_mod.mp = vm
            ta = TraceAnalysis.__new__(TraceAnalysis)
            ta.t = Trace(trace_dir=d)
            ta.t.load_traces(use_multiprocessing=sched is not None)
        finally:
            trace_mod.mp = saved
            nondet.SYM.end()
        if vm is not None and len(ranks_events) > 1 and vm.log.get("tasks") != len(ranks_events):
            raise RuntimeError(f"virtual pool was not used as expected: {vm.log}")
        return then(ta) if then is not None else ta
    finally:
        sc.drop(d)


def ordered_partitions(items):
    """every way of splitting items into a sequence of non-empty steps (order of steps matters, order inside a step
    is ascending), except the single step holding everything (that is the ordinary load)"""
    items = list(items)
    out = []

    def rec(rest, acc):
        if not rest:
            if len(acc) > 1:
                out.append([list(x) for x in acc])
            return
        n = len(rest)
        for mask in range(1, 2 ** n):
            step = [rest[i] for i in range(n) if mask >> i & 1]
            rec([x for x in rest if x not in step], acc + [step])

    rec(items, [])
    return out


def check_stepwise(world) -> Dict[str, Any]:
    from hta.common.trace import Trace
    from mc import htaenv, nondet

    viol: List[Any] = []
    evl = [tmpl(k, E0) for k in world["tset"]]
    ranks = {rid: evs for rid, evs in zip(world["ids"], evl)}
    sc = htaenv.scratch()
    d = sc.fresh()
    execs = 0
    try:
        for i, (r, evs) in enumerate(ranks.items()):
            kineto.write_file(os.path.join(d, f"z{9 - i}.json"), kineto.trace_dict(evs, r))
        nondet.SYM.begin(world["numbering"])
        try:
            t = Trace(trace_dir=d)
            known: Dict[str, int] = {}
            loaded: List[int] = []
            for step in world["steps"]:
                execs += 1
                if len(step) == 1 and world["single_api"]:
                    t.parse_single_rank(step[0])
                else:
                    t.parse_multiple_ranks(list(step), use_multiprocessing=False)
                loaded += step
                st = t.symbol_table.get_sym_table()
                idx = t.symbol_table.get_sym_id_map()
                tag = f"stepwise/after-step-{len(loaded)}-ranks"
                if any(idx.get(s_) != i for i, s_ in enumerate(st)) or len(idx) != len(st):
                    viol.append((f"{tag}/global-table-not-bijective", dict(table=st, world=world)))
                moved = {s_: (i, idx.get(s_)) for s_, i in known.items() if idx.get(s_) != i}
                if moved:
                    viol.append((f"{tag}/ids-changed-when-ranks-were-added", dict(moved=moved, world=world)))
                known = dict(idx)
                for rid in loaded:
                    df = t.traces[rid]
                    evs = ranks[rid]
                    want = {i: (e["name"], e["cat"]) for i, e in enumerate(evs) if e.get("dur") is not None and e.get("cat")}
                    try:
                        got = {int(i): (st[int(n)], st[int(c)]) for i, n, c in zip(df["index"], df["name"], df["cat"])}
                    except IndexError:
                        got = "id outside the table"
                    if got != want:
                        viol.append((f"{tag}/rows-decode-to-wrong-strings", dict(rank=rid, got=got, expected=want, world=world)))
        finally:
            nondet.SYM.end()
    finally:
        sc.drop(d)
    return dict(viol=_dedupe(viol), nontrivial=True, outcome=("stepwise", str(world["steps"])), execs=execs, extra_transitions=execs - 1)


def plan_for(events_list, perms) -> Dict[Any, Any]:
    plan = {}
    for evs, p in zip(events_list, perms):
        if p is not None:
            plan[tuple(vocab(evs))] = p
    return plan


def check(world) -> Dict[str, Any]:
    from mc import bundle as bundle_mod

    viol: List[Any] = []
    mode = world["mode"]
    if mode == "hist":
        r = hist_bfs()
        return dict(viol=_dedupe(r["viol"]), nontrivial=True, outcome=("hist", r["states"]), execs=r["transitions"],
                    extra_transitions=r["transitions"], extra_states=r["states"])
    if mode == "stepwise":
        return check_stepwise(world)
    if mode == "decode":
        evl = [tmpl(k, E0) for k in world["tset"]]
        ranks = {rid: evs for rid, evs in zip(world["ids"], evl)}
        plan = plan_for(evl, world["plan"])
        names = [f"z{9 - i}" for i in range(len(evl))]  # file names in the opposite order of ranks
        ta = load_with(ranks, plan, world["sched"], names)
        st = ta.t.symbol_table.get_sym_table()
        idx = ta.t.symbol_table.get_sym_id_map()
        tag = "pool" if world["sched"] else "sequential"
        if any(idx.get(s) != i for i, s in enumerate(st)) or len(idx) != len(st):
            viol.append((f"decode/global-table-not-bijective/{tag}", dict(table=st)))
        if sorted(ta.t.traces) != sorted(ranks):
            viol.append((f"decode/rank-set/{tag}", dict(got=sorted(ta.t.traces))))
        else:
            for rid, evs in ranks.items():
                df = ta.t.get_trace(rid)
                want = {i: (e["name"], e["cat"]) for i, e in enumerate(evs) if e.get("dur") is not None and e.get("cat")}
                got = {int(i): (st[int(n)], st[int(c)]) for i, n, c in zip(df["index"], df["name"], df["cat"])}
                if got != want:
                    viol.append((f"decode/rows-decode-to-wrong-strings/{tag}", dict(rank=rid, got=got, expected=want, world=world)))
        nontriv = any(p is None or p != sorted(p) for p in world["plan"]) or world["sched"] is not None
        return dict(viol=_dedupe(viol), nontrivial=nontriv, outcome=(tuple(st),), execs=1)
    if mode == "bundle":
        k = world["k"]
        ranks = {0: corpus_trace(k, 0), 1: corpus_trace(k, 1)}
        evl = list(ranks.values())
        def thrice(ta):
            b1 = bundle_mod.bundle(ta)
            b2 = bundle_mod.bundle(ta)                      # the same getters again on the same object
            ta.t.decode_symbol_ids(use_shorten_name=False)  # a legitimate session call that adds decoded columns
            b3 = bundle_mod.bundle(ta)
            for r_ in sorted(ta.t.traces):                  # a critical path analysis of a window on every rank
                for ann_ in ("cudaLaunchKernel", "ProfilerStep"):
                    try:
                        import contextlib, io

                        with contextlib.redirect_stdout(io.StringIO()):
                            ta.critical_path_analysis(rank=r_, annotation=ann_, instance_id=0)
                    except Exception:
                        pass
            b4 = bundle_mod.bundle(ta)
            return b1, b2, b3, b4

        base, again, after_decode, after_cp = load_with(ranks, None, None, then=thrice)
        execs = 4
        if world.get("part", 0) == 0:
            for tagx, other in (("repeated-call", again), ("after-decode_symbol_ids", after_decode), ("after-critical_path_analysis", after_cp)):
                if other != base:
                    diff = sorted(kk for kk in base if other.get(kk) != base[kk])
                    viol.append((f"bundle/result-depends-on-{tagx}/{'+'.join(diff)}", dict(k=k, base={x: base[x] for x in diff[:1]},
                                                                                           got={x: other.get(x) for x in diff[:1]})))
        n0, n1 = len(vocab(evl[0])), len(vocab(evl[1]))

        def variants(n):
            ident = list(range(n))
            out = [ident[::-1]] + [ident[r:] + ident[:r] for r in (1, n // 2)]
            for i in range(n - 1):
                p = ident[:]
                p[i], p[i + 1] = p[i + 1], p[i]
                out.append(p)
            for i in range(1, n):  # every symbol gets the first id (0) once
                out.append([i] + ident[:i] + ident[i + 1:])
            return out

        runs = []
        for p in variants(n0):
            runs.append(([p, list(range(n1))], None))
        for p in variants(n1):
            runs.append(([list(range(n0)), p], None))
        runs.append(([list(range(n0))[::-1], list(range(n1))[::-1]], None))
        for o in ([0, 1], [1, 0]):
            for w in (1, 2):
                runs.append(([list(range(n0)), list(range(n1))], [o, w]))
                runs.append(([list(range(n0))[::-1], list(range(n1))[1:] + [0]], [o, w]))
        runs = runs[world.get("part", 0)::BUNDLE_PARTS] if "part" in world else runs
        for perms, sched in runs:
            execs += 1
            got = load_with(ranks, plan_for(evl, perms), sched, then=bundle_mod.bundle)
            if got != base:
                diff = sorted(kk for kk in base if got.get(kk) != base[kk])
                kind = "numbering" if sched is None else "pool-schedule"
                viol.append((f"bundle/result-depends-on-{kind}/{'+'.join(diff)}", dict(k=k, perms=perms, sched=sched,
                            base={x: base[x] for x in diff[:2]}, got={x: got.get(x) for x in diff[:2]})))
        errs = sorted(kk for kk, v in base.items() if isinstance(v, str) and v.startswith("EXC:"))
        return dict(viol=_dedupe(viol), nontrivial=True, outcome=(k, world.get("part"), json.dumps(base, sort_keys=True)[:2000]), execs=execs,
                    extra_transitions=execs - 1)
    if mode == "seedrun":
        vseed = int(os.environ.get("VERIF_SEED", "0") or 0)
        hseed = (1 + 7919 * (vseed + 1) * (world["seed_slot"] + 1)) % 4294967295
        env = dict(os.environ, PYTHONHASHSEED=str(hseed))
        p = subprocess.run([sys.executable, "-m", "mc.props.c11", str(world["mp"])], capture_output=True, text=True, env=env,
                           cwd=os.path.dirname(os.path.dirname(os.path.dirname(os.path.abspath(__file__)))))
        lines = [ln for ln in p.stdout.splitlines() if ln.startswith("{")]
        if not lines:
            raise RuntimeError(f"seed run failed rc={p.returncode}: {p.stderr[-800:]}")
        got = json.loads(lines[-1])
        execs = 0
        for k in CORPUS:
            ranks = {0: corpus_trace(k, 0), 1: corpus_trace(k, 1)}
            base = json.loads(json.dumps(load_with(ranks, None, None, then=bundle_mod.bundle)))
            execs += 2
            if got["bundles"][str(k)] != base:
                diff = sorted(kk for kk in base if got["bundles"][str(k)].get(kk) != base[kk])
                viol.append(("seedrun/result-depends-on-hash-seed-or-real-pool",
                             dict(k=k, hashseed=hseed, mp=world["mp"], base={x: base[x] for x in diff[:1]},
                                  got={x: got["bundles"][str(k)].get(x) for x in diff[:1]})))
        return dict(viol=_dedupe(viol), nontrivial=True, outcome=("seedrun", world["mp"], tuple(got["numbering"])), execs=execs,
                    extra_transitions=execs)
    raise ValueError(mode)


def _dedupe(v):
    seen, out = set(), []
    for s, d in v:
        if s not in seen:
            seen.add(s)
            out.append((s, d))
    return out


def _seedrun_main(mp: int) -> None:
    """separate process, real hash seed, real fork pool when mp=1: bundles of the whole corpus"""
    from mc import engine, htaenv, bundle as bundle_mod

    engine.setup_hta_env()
    out = {}
    numbering = []
    for k in CORPUS:
        ranks = {0: corpus_trace(k, 0), 1: corpus_trace(k, 1)}
        ta, d = htaenv.load_world(ranks, use_mp=bool(mp), keep=True)
        out[str(k)] = bundle_mod.bundle(ta)
        htaenv.scratch().drop(d)
        numbering = ta.t.symbol_table.get_sym_table()[:6]
    print(json.dumps(dict(bundles=out, numbering=numbering, hashseed=os.environ.get("PYTHONHASHSEED"))))


if __name__ == "__main__":
    _seedrun_main(int(sys.argv[1]))
