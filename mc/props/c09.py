"""C09 - the reported critical path is a maximum-weight path of the graph."""
from __future__ import annotations

from typing import Any, Dict, Iterator, List

from mc import cpworlds, refmodel

ID = "C09"
TECHNIQUE = ("every graph built from the enumerated stream-model behaviours (see C08) x every single-edge (thorough: "
             "pair) re-weighting followed by critical_path(); optimality decided by an independent longest-path "
             "computation over all paths of each graph")
RULE = ("graphs: all C08 worlds (programs x profiles x windows x flag x file orders); on each: path connectivity, total "
        "weight == max over all paths, <= makespan, edge/event sets == those of the path; what-if histories: for graphs "
        "with <= E edges every edge weight set to each of {0, w//2, 2w+1} (thorough also pairs of edges) and the path "
        "recomputed. non-trivial = the graph has at least two maximal paths of different weight")
ASSUMPTIONS = [
    "what-if = assigning graph.edges[u, v]['weight'] and calling critical_path() again",
    "graphs are acyclic (C08)",
]


def bounds(tier: str) -> Dict[str, Any]:
    return dict(E=14 if tier == "quick" else 20, pairs=(tier != "quick"), chunk=8)


def worlds(tier: str, stats: Dict[str, Any]) -> Iterator[Any]:
    for w in cpworlds.worlds(tier, stats):
        w["tier"] = tier
        yield w


def path_checks(g, tag: str, viol: List[Any], ctx, makespan=None) -> float:
    nodes = list(g.critical_path_nodes)
    if len(nodes) < 2:
        viol.append((f"{tag}/path-has-fewer-than-two-nodes", dict(ctx, nodes=nodes)))
        return 0
    total = 0
    edges_on_path = set()
    for u, v in zip(nodes, nodes[1:]):
        if not g.has_edge(u, v):
            viol.append((f"{tag}/path-is-not-connected", dict(ctx, nodes=nodes, missing=(u, v))))
            return 0
        total += g.edges[u, v]["weight"]
        edges_on_path.add(g.edges[u, v]["object"])
    best = cpworlds.longest_path_weight(g)
    if total != best:
        viol.append((f"{tag}/path-is-not-maximum-weight", dict(ctx, path_weight=total, maximum=best, nodes=nodes)))
    if makespan is not None and total > makespan:
        viol.append((f"{tag}/path-weight-exceeds-makespan", dict(ctx, path_weight=total, makespan=makespan)))
    if set(g.critical_path_edges_set) != edges_on_path:
        viol.append((f"{tag}/critical-edge-set-differs-from-path", dict(ctx, n_set=len(g.critical_path_edges_set), n_path=len(edges_on_path))))
    evs = {int(g.node_list[n].ev_idx) for n in nodes}
    if {int(x) for x in g.critical_path_events_set} != evs:
        viol.append((f"{tag}/critical-event-set-differs-from-path", dict(ctx, got=sorted(int(x) for x in g.critical_path_events_set), expected=sorted(evs))))
    return total


def check(world) -> Dict[str, Any]:
    from mc import htaenv

    viol: List[Any] = []
    ta, rank, evs, m = cpworlds.load(world)
    b = bounds(world.get("tier", "quick"))
    execs = 0
    multi = False
    outcome = []
    # all analyses of the world first, then every graph is examined: a graph must not change because later analyses ran
    for ctx, g in list(cpworlds.graphs_for(world, ta, rank=rank)):
        execs += 1
        ts = [int(n.ts) for n in g.node_list]
        total = path_checks(g, "analysis", viol, ctx, makespan=max(ts) - min(ts))
        outcome.append(total)
        edges = list(g.edges)
        # several maximal paths of different weight?
        sinks = [n for n in g.nodes if g.out_degree(n) == 0]
        multi |= len(edges) > len(g.critical_path_nodes) - 1
        if len(edges) <= b["E"]:
            orig = {e: g.edges[e]["weight"] for e in edges}
            todo = [[(e, nw)] for e in edges for nw in (0, orig[e] // 2, 2 * orig[e] + 1) if nw != orig[e]]
            if b["pairs"] and len(edges) <= 8:
                todo += [[(e1, 2 * orig[e1] + 1), (e2, 0)] for e1 in edges for e2 in edges if e1 != e2]
            for changes in todo:
                for e, nw in changes:
                    g.edges[e]["weight"] = nw
                execs += 1
                try:
                    ok = g.critical_path()
                    if not ok:
                        viol.append(("what-if/recompute-reports-failure", dict(ctx, changes=[[list(e), nw] for e, nw in changes])))
                    else:
                        path_checks(g, "what-if", viol, dict(ctx, changes=[[list(e), nw] for e, nw in changes]))
                except Exception as ex:
                    viol.append((f"what-if/recompute-raises/{type(ex).__name__}", dict(ctx, changes=[[list(e), nw] for e, nw in changes], error=repr(ex)[:200])))
                for e, _ in changes:
                    g.edges[e]["weight"] = orig[e]
    return dict(viol=_dedupe(viol), nontrivial=multi, outcome=tuple(outcome), execs=execs, extra_transitions=execs - 1)


def _dedupe(v):
    seen, out = set(), []
    for s, d in v:
        if s not in seen:
            seen.add(s)
            out.append((s, d))
    return out
