"""C01 - loaded events are a faithful, uniformly time-shifted image of the trace file."""
from __future__ import annotations

import itertools
import math
from fractions import Fraction
from typing import Any, Dict, Iterator, List

from mc import kineto, refmodel

ID = "C01"
TECHNIQUE = ("explicit-state BFS over trace files (append one entry of any kind; all entry orders; all small "
             "integer/fractional time assignments; per-rank skews), real parser + loader vs reference parser")
RULE = ("four exhaustive families: kinds = every sequence of <=L entries over 15 entry kinds (complete events of "
        "every category incl. python_function frames, entry without args, profiler 'Trace' span, M/s/f/i entries, entry with dur but no cat, activity with stream 0 and correlation 0) "
        "after a leading host operator; times = a host op + an op + a kernel with every (ts,dur) from the "
        "integer/fractional domain x epoch offsets; ranks = R<=3 rank files with every per-rank skew in {0,1,2} "
        "and rank ids {0..},{3,5,..}, sequential and real fork-pool parse; vocab = two ranks whose symbol sets are equal or "
        "nested, under both numberings of the later rank; magnitude = timestamps/durations whose sum "
        "crosses the int8/int16/int32 boundary while every single value fits; order = every permutation of a 5-entry "
        "file. Each world is checked after parse-only and after full load, in .json and .json.gz. "
        "non-trivial = some entry must be dropped, or a timestamp is fractional, or ranks are skewed")
ASSUMPTIONS = [
    "only the JSON parser back end exists in this environment (ijson is not installed)",
    "every file has at least one complete event and at least one entry with an args dict (Kineto always writes them)",
    "fractional durations occur only together with fractional timestamps (the statement speaks of timestamps)",
    "fewer than two profiler steps, so nothing is trimmed (trimming is C12)",
]
E0 = 1_700_000_000_000_000
KINDS = "onarkyeTMsfixzp"


def bounds(tier: str) -> Dict[str, Any]:
    if tier == "quick":
        return dict(L=3, fracs=[0, 0.5], R=3, perm_n=5, chunk=24)
    return dict(L=4, fracs=[0, 0.25, 0.5, 0.75], R=3, perm_n=6, chunk=24)


def ev_of_kind(k: str, ts, dur, i: int) -> Dict[str, Any]:
    c = 10 + i
    if k == "o":
        return kineto.cpu_op(f"aten::op{i % 3}", ts, dur, ext=i)
    if k == "n":
        e = kineto.cpu_op(f"aten::noargs{i % 2}", ts, dur)
        del e["args"]
        return e
    if k == "a":
        return kineto.annotation("my_annotation", ts, dur)
    if k == "r":
        return kineto.runtime("cudaLaunchKernel", ts, dur, c)
    if k == "k":
        return kineto.kernel(f"kern_{i % 2}", ts, dur, 7, c)
    if k == "y":
        return kineto.memcpy("Memcpy DtoH (Device -> Pageable)", ts, dur, 9, c, bw=0.5)
    if k == "e":
        return kineto.cuda_sync("Event Sync", ts, dur, -1, c)
    if k == "T":
        return kineto.trace_span(ts, dur)
    if k == "M":
        return kineto.meta_event(ts)
    if k == "s":
        return kineto.flow("s", c, kineto.HOST_PID, kineto.MAIN_TID, ts)
    if k == "f":
        return kineto.flow("f", c, 0, 7, ts)
    if k == "i":
        return kineto.instant(ts)
    if k == "z":   # activity on the legacy default stream 0 carrying correlation id 0: both are values, not "absent"
        return kineto.kernel("kern_default_stream", ts, dur, 0, 0)
    if k == "p":   # Python frame recorded with with_stack=True: a complete event like any other
        return kineto.X("python_function", f"torch/nn/modules/module.py(15{i % 2}): _call_impl", kineto.HOST_PID, kineto.MAIN_TID, ts, dur,
                        {"Python id": i, "Python parent id": None, "Ev Idx": i})
    if k == "x":
        return {"ph": "X", "name": "nocat", "pid": kineto.HOST_PID, "tid": kineto.MAIN_TID, "ts": ts, "dur": dur}
    raise ValueError(k)


def num(x: Fraction):
    return int(x) if x.denominator == 1 else float(x)


def worlds(tier: str, stats: Dict[str, Any]) -> Iterator[Any]:
    b = bounds(tier)
    # --- kinds: BFS over kind sequences
    frontier = [""]
    for depth in range(1, b["L"] + 1):
        nxt = []
        for seq in frontier:
            for k in KINDS:
                stats["transitions"] += 1
                s2 = seq + k
                nxt.append(s2)
                evs = [kineto.cpu_op("aten::root", E0, 50, ext=0)]
                for i, kk in enumerate(s2):
                    evs.append(ev_of_kind(kk, E0 + 2 + 3 * i, 2, i + 1))
                yield dict(mode="kinds", seq=s2, ranks={"0": evs}, fmt="json" if len(s2) % 2 else "json.gz")
        frontier = nxt
    # --- times
    fr = [Fraction(f).limit_denominator(4) for f in b["fracs"]]
    tsd = [Fraction(t) + f for t in (0, 1, 2) for f in fr]
    durd = sorted({Fraction(d) + f for d in (0, 1, 2) for f in fr if Fraction(d) + f <= 2})
    for epoch in (0, E0):
        for rts in ([Fraction(0)] + [f for f in fr if f][:1]):
            for (t1, d1) in itertools.product(tsd, durd):
                for (t2, d2) in itertools.product(tsd, durd):
                    stats["transitions"] += 1
                    tss = [rts, t1, t2]
                    if all(x.denominator == 1 for x in tss) and not all(x.denominator == 1 for x in (d1, d2)):
                        continue  # fractional durations only with fractional timestamps
                    evs = [kineto.cpu_op("aten::root", num(epoch + rts), 8, ext=0),
                           kineto.cpu_op("aten::a", num(epoch + t1), num(d1), ext=1),
                           kineto.kernel("kern_0", num(epoch + t2), num(d2), 7, 33)]
                    yield dict(mode="times", ranks={"0": evs}, fmt="json")
    # --- ranks
    for R in range(1, b["R"] + 1):
        for ids in ([list(range(R)), [3 + 2 * r for r in range(R)]] if R > 1 else [[0], [4]]):
            for skews in itertools.product((0, 1, 2), repeat=R):
                for epoch in (0, E0):
                    stats["transitions"] += 1
                    ranks = {}
                    for r, sk in zip(ids, skews):
                        ranks[str(r)] = [kineto.cpu_op("aten::root", epoch + 5 + sk, 9, ext=0),
                                         kineto.runtime("cudaLaunchKernel", epoch + 6 + sk, 1, 20 + r),
                                         kineto.kernel(f"kern_rank{r}", epoch + 7 + 2 * sk, 2, 7, 20 + r),
                                         kineto.meta_event(epoch)]
                    for mp in (False, True) if (R > 1 and skews in ((0,) * R, (2, 0, 1)[:R])) else (False,):
                        yield dict(mode="ranks", ranks=ranks, fmt="json.gz" if epoch else "json", mp=mp)
    # --- ranks whose vocabularies are equal / supersets of one another, under both symbol numberings of the later rank
    for numbering in ("sorted", "reverse"):
        for variant in ("superset", "equal"):
            for epoch in (0, E0):
                stats["transitions"] += 1
                r0 = [kineto.cpu_op("aten::a", epoch + 5, 9, ext=0), kineto.kernel("k1", epoch + 7, 2, 7, 20)]
                r1 = [kineto.cpu_op("aten::a", epoch + 6, 9, ext=0), kineto.kernel("k1", epoch + 9, 2, 7, 21)]
                if variant == "superset":
                    r1 += [kineto.cpu_op("aten::b", epoch + 7, 2, ext=1), kineto.kernel("k0", epoch + 12, 1, 7, 22)]
                yield dict(mode="vocab", ranks={"0": r0, "1": r1}, fmt="json", numbering=numbering)
    # --- magnitude: the parser downcasts integer columns; sums must not wrap at int8/int16/int32 boundaries
    for B in (127, 32767, 2**31 - 1):
        for ts2 in (B - 7, B):
            for dur2 in (1, 8, B):
                for ts3 in (3, B - 20):
                    stats["transitions"] += 1
                    evs = [kineto.cpu_op("aten::root", 0, 2, ext=0),
                           kineto.cpu_op("aten::late", ts2, dur2, ext=1),
                           kineto.kernel("kern_0", ts3, 5, 7, 33)]
                    yield dict(mode="magnitude", ranks={"0": evs}, fmt="json")
    # --- order
    n = b["perm_n"]
    pool = [("o", 1, 3), ("k", 2, 1), ("M", 0, 0), ("r", 1, 1), ("T", 0, 9), ("x", 4, 1)][: n - 1]
    base = [kineto.cpu_op("aten::root", E0, 50, ext=0)] + [ev_of_kind(k, E0 + t, d, i + 1) for i, (k, t, d) in enumerate(pool)]
    for perm in itertools.permutations(range(n)):
        stats["transitions"] += 1
        yield dict(mode="order", perm=list(perm), ranks={"0": [base[p] for p in perm]}, fmt="json")


def rounded(rows):
    """reference rounding: only if some *entry* timestamp of the file is fractional"""
    out = []
    for r in rows:
        ts, dur = Fraction(r["ts"]), Fraction(r["dur"])
        r = dict(r)
        r["ts_r"] = math.ceil(ts)
        r["end_r"] = math.floor(ts + dur)
        r["dur_r"] = r["end_r"] - r["ts_r"]
        out.append(r)
    return out


def verify(t, ranks_events, full: bool, viol: List[Any], tag: str) -> None:
    st = t.symbol_table.get_sym_table()
    idx = t.symbol_table.get_sym_id_map()
    if any(idx.get(s) != i for i, s in enumerate(st)) or len(set(st)) != len(st):
        viol.append((f"{tag}/symbol-table-not-bijective", dict(table=st)))
    exp = {}
    for r, evs in ranks_events.items():
        rows = refmodel.parse_rows(evs)
        frac = any(isinstance(e.get("ts"), float) for e in evs)
        if frac:
            rows = rounded(rows)
        else:
            for x in rows:
                x["ts_r"], x["dur_r"] = x["ts"], x["dur"]
                x["end_r"] = x["ts"] + x["dur"]
        exp[int(r)] = (rows, frac)
    m = min(x["ts_r"] for rows, _ in exp.values() for x in rows) if full else 0
    if sorted(t.traces.keys()) != sorted(exp.keys()):
        viol.append((f"{tag}/rank-set", dict(got=sorted(t.traces.keys()), expected=sorted(exp.keys()))))
        return
    if full and t.min_ts != m:
        viol.append((f"{tag}/min_ts-constant", dict(got=t.min_ts, expected=m)))
    for r, (rows, frac) in exp.items():
        df = t.get_trace(r)
        ids = [int(v) for v in df["index"]]
        if sorted(ids) != sorted(x["id"] for x in rows) or len(set(ids)) != len(ids):
            viol.append((f"{tag}/row-set", dict(rank=r, got=ids, expected=[x["id"] for x in rows])))
            continue
        if full and [int(v) for v in df.index] != ids:
            viol.append((f"{tag}/index-is-not-event-id", dict(rank=r)))
        by = {int(row["index"]): row for _, row in df.iterrows()}
        for x in rows:
            g = by[x["id"]]
            for col, want in (("pid", x["pid"]), ("tid", x["tid"]), ("stream", x["stream"]), ("correlation", x["corr"])):
                if g[col] != want:
                    viol.append((f"{tag}/column-{col}", dict(rank=r, id=x["id"], got=g[col], expected=want)))
            if st[int(g["name"])] != x["name"] or st[int(g["cat"])] != x["cat"]:
                viol.append((f"{tag}/name-or-cat-decode", dict(rank=r, id=x["id"], got=(st[int(g["name"])], st[int(g["cat"])]),
                                                            expected=(x["name"], x["cat"]))))
            if g["dur"] != x["dur_r"]:
                viol.append((f"{tag}/dur", dict(rank=r, id=x["id"], got=g["dur"], expected=x["dur_r"], file=(x["ts"], x["dur"]))))
            if g["ts"] != x["ts_r"] - m:
                viol.append((f"{tag}/ts", dict(rank=r, id=x["id"], got=g["ts"], expected=x["ts_r"] - m, file=(x["ts"], x["dur"]))))
            if g["end"] != g["ts"] + g["dur"]:
                viol.append((f"{tag}/end-is-not-ts-plus-dur", dict(rank=r, id=x["id"], ts=g["ts"], dur=g["dur"], end=g["end"])))
            if frac:
                ts, en = Fraction(x["ts"]), Fraction(x["ts"]) + Fraction(x["dur"])
                if not (g["ts"] + m >= ts and g["ts"] + m + g["dur"] <= en):
                    viol.append((f"{tag}/rounded-event-extends-beyond-original", dict(rank=r, id=x["id"])))
        if frac:
            ok = [x for x in rows if by[x["id"]]["dur"] >= 0]
            for a, c in itertools.permutations(ok, 2):
                a0, a1 = Fraction(a["ts"]), Fraction(a["ts"]) + Fraction(a["dur"])
                c0, c1 = Fraction(c["ts"]), Fraction(c["ts"]) + Fraction(c["dur"])
                ga, gc = by[a["id"]], by[c["id"]]
                if a0 <= c0 and c1 <= a1 and not (ga["ts"] <= gc["ts"] and gc["ts"] + gc["dur"] <= ga["ts"] + ga["dur"]):
                    if gc["dur"] > 0 or (ga["ts"] <= gc["ts"] <= ga["ts"] + ga["dur"]):
                        viol.append((f"{tag}/containment-not-preserved", dict(rank=r, outer=a["id"], inner=c["id"])))
                if a1 <= c0 and not (ga["ts"] + ga["dur"] <= gc["ts"]):
                    viol.append((f"{tag}/disjointness-not-preserved", dict(rank=r, first=a["id"], second=c["id"])))
    if full:
        mn = min(float(t.get_trace(r)["ts"].min()) for r in exp)
        if mn != 0:
            viol.append((f"{tag}/earliest-event-not-at-0", dict(got=mn)))


def check(world) -> Dict[str, Any]:
    from hta.common.trace import Trace
    from mc import htaenv

    viol: List[Any] = []
    ranks = {int(r): evs for r, evs in world["ranks"].items()}
    sc = htaenv.scratch()
    d = sc.fresh()
    try:
        kineto.write_world(d, ranks, world.get("fmt", "json"))
        mp = bool(world.get("mp"))
        from mc import nondet

        nondet.install_symbol_seam()
        nondet.SYM.begin("reverse" if world.get("numbering") == "reverse" else None)
        try:
            t = Trace(trace_dir=d)
            t.parse_traces(use_multiprocessing=mp)
            verify(t, ranks, False, viol, "parse")
            t2 = Trace(trace_dir=d)
            t2.load_traces(use_multiprocessing=mp)
            verify(t2, ranks, True, viol, "load")
        finally:
            nondet.SYM.end()
    finally:
        sc.drop(d)
    rows = {r: refmodel.parse_rows(e) for r, e in ranks.items()}
    dropped = any(len(rows[r]) != len(ranks[r]) for r in ranks)
    frac = any(isinstance(e.get("ts"), float) for evs in ranks.values() for e in evs)
    skew = len({min(x["ts"] for x in rows[r]) for r in ranks}) > 1
    outcome = (tuple(sorted((r, tuple(x["id"] for x in rows[r])) for r in rows))[:2], frac, skew, world["mode"]) \
        if world["mode"] not in ("times", "magnitude", "vocab") else (world["mode"], frac)
    return dict(viol=_dedupe(viol), nontrivial=bool(dropped or frac or skew), outcome=outcome, execs=2)


def _dedupe(v):
    seen, out = set(), []
    for s, d in v:
        if s not in seen:
            seen.add(s)
            out.append((s, d))
    return out
