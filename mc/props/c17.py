"""C17 - trace diff counts and durations are exact; change classes partition the names."""
from __future__ import annotations

import itertools
from typing import Any, Dict, Iterator, List

from mc import kineto, refmodel

ID = "C17"
TECHNIQUE = ("bounded-exhaustive enumeration of (control, test) trace pairs built from per-step event bags x every "
             "rank / iteration / device selection x long|short names, real TraceDiff.compare_traces / ops_diff vs "
             "recount from the reference parse")
RULE = ("a trace = R ranks x profiler steps {5,6,7} x one event bag per (rank, step; the bag of step 7 is a function of the other two) from an alphabet of B bags (ops "
        "with repeated names and different durations, launch+kernel pairs incl. two templated kernels whose short "
        "names collide, a name occurring under two categories, events outside any step); every ordered pair of 1-rank traces incl. self-comparison x "
        "iteration selection {None,5,6,[5,6],[6,5],[5,7],[7,5,6]} x device {CPU,GPU,ALL} x short names {F,T}; a slice in which both objects carry the same label; multi-rank pairs x "
        "every rank selection (None, int, every non-empty sub-list). non-trivial = at least two of the five change "
        "classes are non-empty")
ASSUMPTIONS = [
    "traces are parsed sequentially inside the explorer (pool/sequential equivalence is C11's subject); a "
    "directory-based slice goes through the real pool",
    "iteration numbers follow C12's rule on the parse-only frame (no trimming)",
    "short names of the alphabet are fixed by hand: 'void kern<float>(int)' and 'void kern<int>(int)' -> 'kern'",
]
E0 = 1_700_000_000_000_000
SHORT = {"void kern<float>(int)": "kern", "void kern<int>(int)": "kern"}
# bag = list of (kind, name, dur)
BAGS = [
    [],
    [("op", "aten::add", 2)],
    [("op", "aten::add", 2), ("op", "aten::add", 3), ("op", "aten::mul", 1), ("anno", "ProfilerStepHook", 1)],  # a name that merely starts like a step
    [("op", "aten::add", 2), ("anno", "aten::add", 5), ("anno", "aten::mul", 1)],   # one name under two categories
    [("k", "void kern<float>(int)", 4), ("k", "void kern<int>(int)", 2), ("op", "aten::mul", 5)],
    [("k", "Memcpy DtoD (Device -> Device)", 1), ("op", "aten::add", 7)],
    [("k", "void kern<float>(int)", 4)],
]


def bounds(tier: str) -> Dict[str, Any]:
    if tier == "quick":
        return dict(B=5, multi=[2, 3], chunk=8)
    return dict(B=len(BAGS), multi=[2, 3], chunk=8)


def trace_events(bags_by_step, rank: int) -> List[Dict[str, Any]]:
    """steps 5 at [10,40), 6 at [40,70), 7 at [70,100); bag events laid out sequentially inside their step"""
    evs = [kineto.cpu_op("aten::root", E0, 5, ext=0)]
    corr = 100 * (rank + 1)
    for si, (stepno, bag) in enumerate(bags_by_step):
        s0 = E0 + 10 + 30 * si
        evs.append(kineto.step(stepno, s0, 30))
        t = s0 + 1
        for kind, name, dur in bag:
            if kind == "op":
                evs.append(kineto.cpu_op(name, t, dur, ext=corr))
            elif kind == "anno":
                evs.append(kineto.annotation(name, t, dur))
            else:
                evs.append(kineto.runtime("cudaLaunchKernel", t, 1, corr))
                if name.startswith("Memcpy"):
                    evs.append(kineto.memcpy(name, t + 2, dur, 7, corr, bw=1.0))
                else:
                    evs.append(kineto.kernel(name, t + 2, dur, 7, corr))
            corr += 1
            t += 4
    evs.append(kineto.cpu_op("aten::outside", E0 + 110, 2, ext=1))
    return evs


def worlds(tier: str, stats: Dict[str, Any]) -> Iterator[Any]:
    b = bounds(tier)
    B = b["B"]
    singles = list(itertools.product(range(B), repeat=2))
    for c in singles:
        for t in singles:
            stats["transitions"] += 1
            yield dict(control=[list(c)], test=[list(t)], mode="obj")
    # the two objects carry the same label
    for c in singles[:: 2]:
        for t in singles[1:: 3]:
            stats["transitions"] += 1
            yield dict(control=[list(c)], test=[list(t)], mode="obj", labels=["run", "run"])
    # multi-rank: rank r uses bags shifted by r
    for R in b["multi"]:
        for c in singles[:: 3]:
            for t in singles[1:: 5]:
                stats["transitions"] += 1
                yield dict(control=[[(c[0] + r) % B, (c[1] + 2 * r) % B] for r in range(R)],
                           test=[[(t[0] + 2 * r) % B, (t[1] + r) % B] for r in range(R)], mode="obj")
    for c in singles[:: 7]:
        stats["transitions"] += 1
        yield dict(control=[list(c), list(c)[::-1]], test=[list(c)[::-1], list(c)], mode="dir")


_CACHE: Dict[Any, Any] = {}


def get_lt(spec, label: str, mode: str):
    """LabeledTrace (cached per worker) for spec = [[bag5, bag6] per rank]"""
    from hta.common.trace import Trace
    from hta.trace_diff import LabeledTrace
    from mc import htaenv
    import functools

    key = (tuple(map(tuple, spec)), label, mode)
    if key in _CACHE:
        return _CACHE[key]
    ranks = {r: trace_events([(5, BAGS[bs[0]]), (6, BAGS[bs[1]]), (7, BAGS[(bs[0] + 2 * bs[1] + 1) % len(BAGS)])], r)
             for r, bs in enumerate(spec)}
    sc = htaenv.scratch()
    d = sc.fresh()
    kineto.write_world(d, ranks, "json")
    if mode == "dir":
        lt = LabeledTrace(label=label, trace_dir=d)
    else:
        t = Trace(trace_dir=d)
        t.parse_traces = functools.partial(t.parse_traces, use_multiprocessing=False)
        lt = LabeledTrace(label=label, t=t)
    sc.drop(d)
    if len(_CACHE) > 400:
        _CACHE.clear()
    _CACHE[key] = (lt, ranks)
    return lt, ranks


def iteration_of(rows):
    lk = refmodel.links(rows)
    by = {r["id"]: r for r in rows}
    steps = [(x["ts"], x["ts"] + x["dur"], int(x["name"].split("#")[1])) for x in rows if x["name"].startswith("ProfilerStep#")]
    host = {}
    for x in rows:
        it = -1
        for a, b_, k in steps:
            if a <= x["ts"] < b_:
                it = k
        host[x["id"]] = it
    return {x["id"]: (host[lk[x["id"]]] if lk[x["id"]] > 0 else -1) if x["stream"] > 0 else host[x["id"]] for x in rows}


def summary(ranks_events, ranks_sel, iters_sel, device: str, short: bool):
    out: Dict[str, List[int]] = {}
    for r in ranks_sel:
        rows = refmodel.parse_rows(ranks_events[r])
        its = iteration_of(rows)
        for x in rows:
            if its[x["id"]] not in iters_sel:
                continue
            if device == "CPU" and x["stream"] != -1:
                continue
            if device == "GPU" and x["stream"] == -1:
                continue
            n = SHORT.get(x["name"], x["name"]) if short else x["name"]
            c = out.setdefault(n, [0, 0])
            c[0] += 1
            c[1] += x["dur"]
    return out


def sublists(ranks: List[int]):
    out = []
    for n in range(1, len(ranks) + 1):
        for c in itertools.combinations(ranks, n):
            out.append(list(c))
    return out


def check(world) -> Dict[str, Any]:
    from hta.trace_diff import DeviceType, TraceDiff

    viol: List[Any] = []
    mode = world["mode"]
    ctl, cr = get_lt(world["control"], "Control", mode)
    tst, tr = get_lt(world["test"], "Test", mode)
    # the labels a user gave the two objects; equal labels are legal (the tool renames the test trace's label)
    labels = world.get("labels", ["Control", "Test"])
    R = len(world["control"])
    execs = 0
    classes_seen = set()
    rank_sels = [None] if R == 1 else [None, 0, R - 1] + sublists(list(range(R)))
    iter_sels = [None, 5, 6, [5, 6], [6, 5], [5, 7], [7, 5, 6]] if R == 1 else [None, [5, 7]]
    for rs in rank_sels:
        for its in iter_sels:
            for dev in ("CPU", "GPU", "ALL"):
                for short in ((False, True) if R == 1 else (False,)):
                    r_eff = [0] if rs is None else ([rs] if isinstance(rs, int) else rs)
                    i_eff = [5] if its is None else ([its] if isinstance(its, int) else its)
                    ec = summary(cr, r_eff, i_eff, dev, short)
                    et = summary(tr, r_eff, i_eff, dev, short)
                    ctx = dict(control=world["control"], test=world["test"], ranks=rs, iterations=its, device=dev, short=short)
                    tag = f"ranks={'None' if rs is None else ('int' if isinstance(rs, int) else ('all' if len(rs) == R else 'sublist'))}"
                    execs += 1
                    ctl.label, tst.label = labels
                    df = TraceDiff.compare_traces(ctl, tst, rs, rs, its, its, DeviceType[dev], short)
                    cl, tl = ctl.label, tst.label
                    if cl == tl or f"{cl}_counts" not in df.columns or f"{tl}_counts" not in df.columns:
                        viol.append((f"compare/columns-not-named-after-the-two-labels/{tag}", dict(ctx, labels=[cl, tl], columns=list(df.columns))))
                        continue
                    got = {str(n): [float(row[f"{cl}_counts"]), float(row[f"{cl}_total_duration"]), float(row[f"{tl}_counts"]),
                                    float(row[f"{tl}_total_duration"]), float(row["diff_counts"]), float(row["diff_duration"])]
                           for n, row in df.iterrows()}
                    names = set(ec) | set(et)
                    if len(df) != len(got):
                        viol.append((f"compare/duplicate-name-rows/{tag}", ctx))
                    if set(got) != names:
                        viol.append((f"compare/name-set/{tag}", dict(ctx, got=sorted(got), expected=sorted(names))))
                        continue
                    for n in names:
                        c, t = ec.get(n, [0, 0]), et.get(n, [0, 0])
                        want = [c[0], c[1], t[0], t[1], t[0] - c[0], t[1] - c[1]]
                        if got[n] != [float(v) for v in want]:
                            viol.append((f"compare/counts-or-durations/{tag}", dict(ctx, name=n, got=got[n], expected=want)))
                            break
                    if not short:
                        execs += 1
                        ctl.label, tst.label = labels
                        od = TraceDiff.ops_diff(ctl, tst, rs, rs, its, its, DeviceType[dev])
                        allnames = [n for v in od.values() for n in v]
                        if len(allnames) != len(set(allnames)):
                            viol.append((f"ops_diff/classes-overlap/{tag}", dict(ctx, got=od)))
                        if set(allnames) != names:
                            viol.append((f"ops_diff/classes-do-not-cover-names/{tag}", dict(ctx, got=od, expected=sorted(names))))
                        exp_cls = {"added": [], "deleted": [], "increased": [], "decreased": [], "unchanged": []}
                        for n in names:
                            c, t = ec.get(n, [0, 0])[0], et.get(n, [0, 0])[0]
                            k = "added" if c == 0 else "deleted" if t == 0 else "increased" if t > c else "decreased" if t < c else "unchanged"
                            exp_cls[k].append(n)
                        if {k: sorted(v) for k, v in od.items()} != {k: sorted(v) for k, v in exp_cls.items()}:
                            viol.append((f"ops_diff/wrong-class/{tag}", dict(ctx, got=od, expected=exp_cls)))
                        classes_seen |= {k for k, v in exp_cls.items() if v}
                        if world["control"] == world["test"] and (set(od) - {"unchanged"}) and any(od[k] for k in od if k != "unchanged"):
                            viol.append((f"self-comparison-not-unchanged/{tag}", dict(ctx, got=od)))
    return dict(viol=_dedupe(viol), nontrivial=len(classes_seen) >= 2, outcome=tuple(sorted(classes_seen)) + (R,), execs=execs,
                extra_transitions=execs - 1)


def _dedupe(v):
    seen, out = set(), []
    for s, d in v:
        if s not in seen:
            seen.add(s)
            out.append((s, d))
    return out
