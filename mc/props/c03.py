"""C03 - call stack: parent is the innermost enclosing event on the thread (both builders)."""
from __future__ import annotations

import itertools
from typing import Any, Dict, Iterator, List

from mc import laminar

ID = "C03"
TECHNIQUE = ("exhaustive enumeration of laminar span families up to order-isomorphism (dense-ranked endpoints: every "
             "tie pattern incl. zero-duration spans) x event-id assignments x row orders, both real call-stack "
             "builders vs innermost-enclosing reference")
RULE = ("every laminar family of N spans whose endpoint set is {0..k} (2/13/110/1066/... families for N=1..4) x "
        "every assignment of event ids x every row order of the frame (bounds per tier in 'bounds'), evaluated on "
        "hta.common.call_stack.CallStackGraph (critical-path builder) and hta.common.trace_call_stack.CallStackGraph "
        "(call-graph builder); plus a file slice through CallGraph(trace) and a multi-thread slice (three host threads "
        "sharing thread ids across processes and with a device stream, through both CallGraph classes). non-trivial = the family has a shared "
        "endpoint, an identical pair or a zero-duration span")
ASSUMPTIONS = [
    "both comparators only test ==/< on times and durations, so a family is determined by the weak order of its "
    "endpoints together with which durations are equal; dense-ranked endpoints on 0..2N-1 realise every weak order "
    "(equal-duration patterns are covered as far as they occur among dense-ranked families)",
    "identical spans nest in ascending event-id order (event id = file position)",
    "a zero-duration event may be placed under the root or any event whose closed span contains its instant, but "
    "must be a descendant of every positive-duration event that strictly contains its instant",
]
BASE = 10  # event ids start at BASE+1 so that they never collide with sentinels


def bounds(tier: str) -> Dict[str, Any]:
    if tier == "quick":
        return dict(full_N=3, N4_ids="identity,reversed", N4_rows="all", N5=None, chunk=6)
    return dict(full_N=4, N4_ids="all", N4_rows="all", N5="identity,reversed ids x sorted,reversed,rotated rows", chunk=6)


def worlds(tier: str, stats: Dict[str, Any]) -> Iterator[Any]:
    b = bounds(tier)
    for n in range(1, b["full_N"] + 1):
        for fam in laminar.families(n):
            stats["transitions"] += 1
            yield dict(spans=[list(s) for s in fam], ids="all", rows="all")
    if b["full_N"] < 4:
        for fam in laminar.families(4):
            stats["transitions"] += 1
            yield dict(spans=[list(s) for s in fam], ids="idrev", rows="all")
    if b["N5"]:
        for fam in laminar.families(5):
            stats["transitions"] += 1
            yield dict(spans=[list(s) for s in fam], ids="idrev", rows="few")
    # several host threads in one file, sharing thread ids across processes and with a device stream
    fams2 = list(laminar.families(2))
    for fa in fams2:
        for fb in (fams2[3], fams2[7], fams2[11]):
            stats["transitions"] += 1
            yield dict(spans=[list(s) for s in fa], spans_b=[list(s) for s in fb], ids="threads", rows="file")
    # file slice: the same families (N<=3) through the public CallGraph on a loaded trace
    for n in range(1, 4):
        for fam in laminar.families(n):
            stats["transitions"] += 1
            yield dict(spans=[list(s) for s in fam], ids="file", rows="file")


def perms(n: int, mode: str):
    ident = list(range(n))
    if mode == "all":
        return [list(p) for p in itertools.permutations(ident)]
    if mode == "idrev":
        return [ident, ident[::-1]] if n > 1 else [ident]
    if mode == "few":
        out = [ident, ident[::-1], ident[1:] + ident[:1]]
        return [o for k, o in enumerate(out) if o not in out[:k]]
    raise ValueError(mode)


def make_df(events, row_order):
    """frame like one host thread of a loaded trace: events = [(id, s, e)]"""
    import pandas as pd

    rows = [events[k] for k in row_order]
    ids = [r[0] for r in rows]
    df = pd.DataFrame({
        "index": ids, "ts": [r[1] for r in rows], "dur": [r[2] - r[1] for r in rows], "end": [r[2] for r in rows],
        "pid": 100, "tid": 100, "stream": -1, "correlation": -1, "index_correlation": -1,
        "name": 0, "cat": 1, "iteration": -1,
    }, index=pd.Index(ids))
    return df


def zero_class(events) -> str:
    """structural classifier of a family: is there a zero-duration event at an instant where one positive-duration
    event ends and another begins (the configuration on which both endpoint comparators are cyclic)?"""
    pos = [e for e in events if e[2] > e[1]]
    closes = {e[2] for e in pos}
    opens = {e[1] for e in pos}
    zeros = {e[1] for e in events if e[2] == e[1]}
    if zeros & closes & opens:
        return "zero-dur-at-close-and-open-instant"
    return "no-zero-dur-at-touch-point"


def verify(nodes: Dict[int, Any], events, root, tag0: str, viol: List[Any], ctx) -> None:
    """nodes: id -> (parent, depth, children)"""
    tag = f"{tag0}/{zero_class(events)}"
    ids = [e[0] for e in events]
    evs = {e[0]: e for e in events}
    got_ids = sorted(k for k in nodes if k != root and k >= 0)
    if got_ids != sorted(ids):
        viol.append((f"{tag}/node-set", dict(ctx, got=got_ids)))
        return
    par = {i: nodes[i][0] for i in ids}
    for i in ids:
        p = par[i]
        if p != root and p not in evs:
            viol.append((f"{tag}/parent-is-not-an-event", dict(ctx, id=i, parent=p)))
            return
    # children consistent with parents, each event once
    for k, nd in nodes.items():
        ch = list(nd[2])
        if len(ch) != len(set(ch)):
            viol.append((f"{tag}/event-appears-twice-among-children", dict(ctx, node=k, children=ch)))
        for c in ch:
            if c in par and par[c] != k:
                viol.append((f"{tag}/children-inconsistent-with-parent", dict(ctx, node=k, child=c, parent_of_child=par[c])))
    for i in ids:
        p = par[i]
        if i not in list(nodes[p][2]) if p in nodes else True:
            viol.append((f"{tag}/children-inconsistent-with-parent", dict(ctx, id=i, parent=p)))
    ref_parent, ref_depth = laminar.ref_parents(events)
    zero_ids = [i for i in ids if evs[i][1] == evs[i][2]]

    def ancestors(i):
        out, p, seen = [], par[i], set()
        while p != root and p in par and p not in seen:
            out.append(p)
            seen.add(p)
            p = par[p]
        return out

    for i, want in ref_parent.items():
        anc = ancestors(i)
        pos_anc = [a for a in anc if evs[a][2] > evs[a][1]]
        got = pos_anc[0] if pos_anc else -1
        direct = par[i] if par[i] != root else -1
        if got != want:
            e = evs[i]
            w = evs.get(want)
            g = evs.get(got)
            if g is not None and not (g[1] <= e[1] and e[2] <= g[2]):
                kind = "parent-does-not-contain-event" + ("/touching" if (g[2] == e[1] or e[2] == g[1]) else "")
            elif g is None:
                kind = "enclosing-event-missed"
            else:
                kind = "parent-not-innermost"
            viol.append((f"{tag}/{kind}", dict(ctx, id=i, got=got, expected=want)))
        elif direct != want and (direct == -1 or evs[direct][2] > evs[direct][1]):
            viol.append((f"{tag}/parent-wrong", dict(ctx, id=i, got=direct, expected=want)))
        elif direct != want:
            # the direct parent is a zero-duration event: a zero-length event cannot contain a positive one
            viol.append((f"{tag}/positive-event-under-zero-duration-event", dict(ctx, id=i, got=direct, expected=want)))
    for i in ids:
        d = nodes[i][1]
        if d is not None and d != len(ancestors(i)):
            viol.append((f"{tag}/depth-is-not-number-of-ancestors", dict(ctx, id=i, depth=d, ancestors=ancestors(i))))
    for z in zero_ids:
        t = evs[z][1]
        p = par[z]
        if p != root:
            pe = evs[p]
            if not (pe[1] <= t <= pe[2]):
                viol.append((f"{tag}/zero-duration-event-under-event-not-containing-it", dict(ctx, id=z, parent=p)))
        anc = set(ancestors(z))
        for (j, s, e) in events:
            if e > s and s < t < e and j not in anc:
                viol.append((f"{tag}/zero-duration-event-outside-strictly-enclosing-event", dict(ctx, id=z, missing_ancestor=j)))
                break


def run_old(df):
    from hta.common.call_stack import CallStackGraph, CallStackIdentity

    g = CallStackGraph(df, CallStackIdentity(0, 100, 100))
    return {int(k): (int(v.parent), int(v.depth), [int(c) for c in v.children]) for k, v in g.get_nodes().items()}, -1


def run_new(df):
    import pandas as pd
    from hta.common.trace_call_stack import CallStackGraph, CallStackIdentity
    from hta.common.trace_symbol_table import TraceSymbolTable

    st = TraceSymbolTable()
    st.add_symbols(["aten::op", "cpu_op"])
    full = df.copy()
    corr = pd.DataFrame({"gpu_index": pd.Series(dtype="int64"), "cpu_index": pd.Series(dtype="int64")})
    g = CallStackGraph(full, CallStackIdentity(0, 100, 100), corr, full, st, save_call_stack_to_df=False)
    root = g.root_index
    return {int(k): (int(v.parent), int(v.depth), [int(c) for c in v.children]) for k, v in g.get_nodes().items()}, root


def check(world) -> Dict[str, Any]:
    viol: List[Any] = []
    spans = [tuple(s) for s in world["spans"]]
    n = len(spans)
    execs = 0
    if world["ids"] == "file":
        return check_file(world)
    if world["ids"] == "threads":
        return check_threads(world)
    for idp in perms(n, world["ids"]):
        events = [(BASE + 1 + idp[k], spans[k][0], spans[k][1]) for k in range(n)]
        for ro in perms(n, world["rows"]):
            df = make_df(events, ro)
            ctx = dict(events=events, row_order=ro)
            for tag, fn in (("cp-builder", run_old), ("callgraph-builder", run_new)):
                execs += 1
                try:
                    nodes, root = fn(df.copy())
                except Exception as ex:
                    import traceback

                    from mc.engine import _where

                    viol.append((f"{tag}/crash/{type(ex).__name__}/{_where(traceback.format_exc())}", dict(ctx, error=repr(ex)[:300])))
                    continue
                verify(nodes, events, root, tag, viol, ctx)
    nontrivial = len({p for s in spans for p in s}) < 2 * n
    pts = sorted(spans)
    return dict(viol=_dedupe(viol), nontrivial=nontrivial, outcome=tuple(pts), execs=execs, extra_transitions=execs - 1)


def check_file(world) -> Dict[str, Any]:
    """same families on one host thread of a real file, through CallGraph(trace)"""
    from hta.common.trace_call_graph import CallGraph
    from mc import htaenv, kineto

    viol: List[Any] = []
    spans = [tuple(s) for s in world["spans"]]
    E0 = 1_700_000_000_000_000
    evs = [kineto.cpu_op("aten::root", E0 - 5, 2, ext=0)] + [kineto.cpu_op(f"aten::op{k}", E0 + 3 * s, 3 * (e - s), ext=k + 1)
                                                            for k, (s, e) in enumerate(spans)]
    ta, _ = htaenv.load_world({0: evs})
    execs = 1
    try:
        cg = CallGraph(ta.t, ranks=[0])
        df = cg.trace_data.get_trace(0)
        events = [(k + 1, 3 * s, 3 * e) for k, (s, e) in enumerate(spans)] + [(0, -5, -3)]
        nodes = {}
        for i in df.index:
            nodes[int(i)] = (int(df.loc[i, "parent"]), int(df.loc[i, "depth"]), [int(c) for c in df.index[df["parent"] == i]])
        roots = {p for (p, _, _) in nodes.values() if p not in nodes}
        if len(roots) > 1:
            viol.append(("callgraph-file/several-roots", dict(roots=sorted(roots))))
        root = next(iter(roots)) if roots else -1
        nodes[root] = (-99, -1, [i for i, v in nodes.items() if v[0] == root])
        verify(nodes, events, root, "callgraph-file", viol, dict(events=events))
    except Exception as ex:
        import traceback

        from mc.engine import _where

        viol.append((f"callgraph-file/crash/{type(ex).__name__}/{_where(traceback.format_exc())}", dict(error=repr(ex)[:300])))
    return dict(viol=_dedupe(viol), nontrivial=len({p for s in spans for p in s}) < 2 * len(spans), outcome=("file", tuple(sorted(spans))),
                execs=execs)


def check_threads(world) -> Dict[str, Any]:
    """three host threads (pid, tid) = (100, 5), (200, 5), (100, 7) plus device stream 7: every thread must get its own
    stack, in both call-graph classes"""
    from hta.common.call_stack import CallGraph as OldCallGraph
    from hta.common.trace_call_graph import CallGraph as NewCallGraph
    from mc import htaenv, kineto

    viol: List[Any] = []
    E0 = 1_700_000_000_000_000
    fa, fb = [tuple(s) for s in world["spans"]], [tuple(s) for s in world["spans_b"]]
    threads = {(100, 5): fa, (200, 5): fb, (100, 7): fa[::-1]}
    evs = [kineto.cpu_op("aten::root", E0 - 5, 2, ext=0, pid=100, tid=5)]
    per_thread: Dict[Any, List[Any]] = {(100, 5): [(0, -5, -3)]}
    for (pid, tid), fam in threads.items():
        off = {5: 0, 7: 1}[tid] + (2 if pid == 200 else 0)
        for k, (s, e) in enumerate(fam):
            if e == s:
                e = s  # zero-duration spans are kept (their placement is checked by the weaker zero-duration clauses)
            per_thread.setdefault((pid, tid), []).append((len(evs), 4 * s + off, 4 * e + off))
            evs.append(kineto.cpu_op(f"aten::op{k}", E0 + 4 * s + off, 4 * (e - s), ext=len(evs), pid=pid, tid=tid))
    evs.append(kineto.runtime("cudaLaunchKernel", E0 + 40, 2, 9, pid=100, tid=5))
    per_thread[(100, 5)].append((len(evs) - 1, 40, 42))
    evs.append(kineto.kernel("kern", E0 + 44, 3, 7, 9))
    execs = 0
    for tag, cls in (("cp-callgraph-file", OldCallGraph), ("callgraph-file", NewCallGraph)):
        ta, _ = htaenv.load_world({0: evs})
        execs += 1
        try:
            cg = cls(ta.t, ranks=[0])
            df = ta.t.get_trace(0)
            for key, events in per_thread.items():
                ids = [e[0] for e in events]
                nodes = {}
                bad = False
                for i in ids:
                    p_, d_ = df.loc[i, "parent"], df.loc[i, "depth"]
                    if p_ != p_ or d_ != d_:
                        viol.append((f"{tag}/threads/event-in-no-stack", dict(thread=key, id=i, spans=world["spans"], spans_b=world["spans_b"])))
                        bad = True
                        break
                    nodes[i] = (int(p_), int(d_), [int(c) for c in df.index[(df["parent"] == i) & (df["stream"] == -1)]])
                if bad:
                    continue
                roots = {p_ for (p_, _, _) in nodes.values() if p_ not in nodes}
                other = [r for r in roots if r >= 0]
                if other:
                    viol.append((f"{tag}/threads/parent-on-another-thread", dict(thread=key, parents=sorted(other), spans=world["spans"], spans_b=world["spans_b"])))
                    continue
                root = next(iter(roots)) if roots else -1
                if len(roots) > 1:
                    viol.append((f"{tag}/threads/several-roots", dict(thread=key, roots=sorted(roots))))
                    continue
                nodes[root] = (-99, -1, [i for i, v in nodes.items() if v[0] == root])
                verify(nodes, events, root, f"{tag}/threads", viol, dict(thread=key, events=events))
        except Exception as ex:
            import traceback

            from mc.engine import _where

            viol.append((f"{tag}/threads/crash/{type(ex).__name__}/{_where(traceback.format_exc())}", dict(error=repr(ex)[:300])))
    # one call graph over two ranks whose threads nest differently under the same event ids: the stack objects of
    # rank 0 must still describe rank 0 after rank 1 has been built
    try:
        evs1 = [kineto.cpu_op("aten::root", E0 - 5, 2, ext=0, pid=100, tid=5)]
        for k, (s_, e_) in enumerate(fb[::-1] + fa):
            evs1.append(kineto.cpu_op(f"aten::r1op{k}", E0 + 4 * s_ + 1, max(4 * (e_ - s_), 1), ext=k + 1, pid=100, tid=5))
        ta2, _ = htaenv.load_world({0: evs, 1: evs1})
        execs += 1
        cg2 = NewCallGraph(ta2.t)
        events0 = per_thread[(100, 5)]
        nm = cg2.rank_to_nodes[0]
        ids0 = [e[0] for e in events0]
        if any(i not in nm for i in ids0):
            viol.append(("callgraph-two-ranks/rank0-stack-objects-lost", dict(spans=world["spans"], spans_b=world["spans_b"])))
        else:
            nodes = {i: (int(nm[i].parent), int(nm[i].depth), [int(c) for c in nm[i].children if nm[c].device.name != "GPU"]) for i in ids0}
            roots = {p_ for (p_, _, _) in nodes.values() if p_ not in nodes}
            if len(roots) == 1:
                root = next(iter(roots))
                nodes[root] = (-99, -1, [i for i, v in nodes.items() if v[0] == root])
                verify(nodes, events0, root, "callgraph-two-ranks/rank0", viol, dict(events=events0))
            else:
                viol.append(("callgraph-two-ranks/rank0-parents-outside-thread", dict(roots=sorted(roots))))
    except Exception as ex:
        import traceback

        from mc.engine import _where

        viol.append((f"callgraph-two-ranks/crash/{type(ex).__name__}/{_where(traceback.format_exc())}", dict(error=repr(ex)[:300])))
    return dict(viol=_dedupe(viol), nontrivial=True, outcome=("threads", tuple(fa), tuple(fb)), execs=execs, extra_transitions=execs - 1)


def _dedupe(v):
    seen, out = set(), []
    for s, d in v:
        if s not in seen:
            seen.add(s)
            out.append((s, d))
    return out
