"""C08 - critical-path graph is a forward-in-time DAG with typed, non-negative edges."""
from __future__ import annotations

from typing import Any, Dict, Iterator, List

from mc import cpworlds, nondet, refmodel

ID = "C08"
TECHNIQUE = ("exhaustive enumeration of the behaviours of a CUDA-stream execution model (all host programs up to a "
             "length bound x parameter profiles) replayed against the real critical_path_analysis, x annotation "
             "windows x zero-weight-launch flag x sort tie orders; every edge of every graph checked against the "
             "reference link/stream relations")
RULE = ("every balanced host program with <=L actions over {launch on stream 7|9, memcpyAsync, streamSynchronize 7|9, "
        "deviceSynchronize} and operator nesting <=2 (quick: L=2 with operators, L=3 flat) x timing profiles (host call "
        "duration, launch latency, kernel durations incl. 0, host gaps, shared starts) -> one causally consistent "
        "trace each; step-wrapped variants (3 profiler steps, the last trimmed by the loader); windows: whole trace, "
        "ProfilerStep instances None/0/1/(0,1), operator-name windows; CRITICAL_PATH_ADD_ZERO_WEIGHT_LAUNCH_EDGE in "
        "{0,1}; N1 tie orders stable + all-reversed (thorough: every single tie group). non-trivial = the graph has "
        "a launch-delay, a kernel-kernel and a synchronisation edge, or the window clips events")
ASSUMPTIONS = [
    "causally consistent = produced by the stream model (activities of a stream run in launch order, a kernel starts "
    "no earlier than its launch call, synchronising calls return no earlier than the awaited work)",
    "host events have positive duration (zero-duration host events are filtered by the analysis itself)",
    "CUDA-event based synchronisation (eventRecord/streamWaitEvent/eventSynchronize) is not generated in this tier",
    "an unstable sort may return rows with equal keys in any order",
]
BLOCKING_CALLS = ("cudaDeviceSynchronize", "cudaStreamSynchronize", "cudaEventQuery", "cudaEventSynchronize", "cudaMemcpy",
                  "cudaMemcpyAsync")
SYNC_CALLS = ("cudaStreamSynchronize", "cudaDeviceSynchronize", "cudaEventSynchronize")


def bounds(tier: str) -> Dict[str, Any]:
    return dict(L_ops=2 if tier == "quick" else "2 under 8 profiles + 3 (exactly 3 actions) under 2 profiles",
                L_flat=3 if tier == "quick" else "3 under 8 profiles + 4 under 2 profiles",
                profiles=4 if tier == "quick" else 8, tie_max_dev=0 if tier == "quick" else 1, chunk=8)


def worlds(tier: str, stats: Dict[str, Any]) -> Iterator[Any]:
    for w in cpworlds.worlds(tier, stats):
        w["tier"] = tier
        yield w


def worker_init() -> None:
    nondet.install()


def has_cycle(n_nodes, edges) -> bool:
    adj: Dict[int, List[int]] = {}
    for u, v in edges:
        adj.setdefault(u, []).append(v)
    state: Dict[int, int] = {}

    def dfs(u) -> bool:
        state[u] = 1
        for v in adj.get(u, []):
            s = state.get(v, 0)
            if s == 1 or (s == 0 and dfs(v)):
                return True
        state[u] = 2
        return False

    return any(state.get(u, 0) == 0 and dfs(u) for u in list(adj))


def check_graph(g, rows, m, tag: str, viol: List[Any], ctx) -> Dict[str, int]:
    """all C08 clauses on one graph. rows: reference rows (file time base); m: time shift"""
    by = {r["id"]: r for r in rows}
    lk = refmodel.links(rows)
    stats = {"launch": 0, "kk": 0, "sync": 0}
    smap, emap = g.event_to_start_node_map, g.event_to_end_node_map
    if set(smap) != set(emap):
        viol.append((f"{tag}/start-and-end-node-maps-differ", dict(ctx)))
    nodes = g.node_list
    seen_nodes = set()
    for ev, n in list(smap.items()) + list(emap.items()):
        if n in seen_nodes:
            viol.append((f"{tag}/node-shared-by-two-roles", dict(ctx, node=n)))
        seen_nodes.add(n)
    for ev in smap:
        r = by.get(int(ev))
        if r is None:
            viol.append((f"{tag}/node-for-unknown-event", dict(ctx, event=int(ev))))
            continue
        s, e = nodes[smap[ev]], nodes[emap[ev]]
        if not s.is_start or e.is_start or int(s.ev_idx) != int(ev) or int(e.ev_idx) != int(ev):
            viol.append((f"{tag}/node-roles-wrong", dict(ctx, event=int(ev))))
        if int(s.ts) != r["ts"] - m or int(e.ts) != r["ts"] + r["dur"] - m:
            viol.append((f"{tag}/node-time-differs-from-event", dict(ctx, event=int(ev), got=(int(s.ts), int(e.ts)),
                                                                     expected=(r["ts"] - m, r["ts"] + r["dur"] - m))))
    # (b) every analysed event of the clipped frame has nodes
    df = g.trace_df
    st = g.symbol_table.get_sym_table()
    for i, row in df.iterrows():
        cat = st[int(row["cat"])]
        need = (cat in ("cpu_op", "cuda_runtime", "cuda_driver")) or (int(row["stream"]) != -1 and int(row["index_correlation"]) > 0)
        if need and int(i) not in smap:
            viol.append((f"{tag}/analysed-event-without-nodes", dict(ctx, event=int(i), cat=cat)))
    # stream order of device activities in the clipped frame
    per_stream: Dict[int, List[Dict[str, Any]]] = {}
    for ev in smap:
        r = by.get(int(ev))
        if r is not None and r["stream"] > 0 and r["cat"] != "cuda_sync":
            per_stream.setdefault(r["stream"], []).append(r)
    nxt = {}
    for s, ks in per_stream.items():
        ks.sort(key=lambda r: (r["ts"], r["ts"] + r["dur"], r["id"]))
        for a, b_ in zip(ks, ks[1:]):
            nxt[a["id"]] = b_
    edges = []
    for u, v in g.edges:
        e = g.edges[u, v]["object"]
        w_attr = g.edges[u, v]["weight"]
        edges.append((u, v))
        su, sv = nodes[u], nodes[v]
        ru, rv = by.get(int(su.ev_idx)), by.get(int(sv.ev_idx))
        ty = e.type.name
        ectx = dict(ctx, edge=str(e), src=str(su), dst=str(sv))
        if (e.begin, e.end) != (u, v):
            viol.append((f"{tag}/edge-object-endpoints-differ-from-graph", ectx))
        dt = int(sv.ts) - int(su.ts)
        if dt < 0:
            viol.append((f"{tag}/edge-points-backward-in-time/{ty}", ectx))
        if e.weight < 0 or w_attr < 0:
            viol.append((f"{tag}/negative-weight/{ty}", ectx))
        if w_attr != e.weight:
            viol.append((f"{tag}/graph-weight-differs-from-edge-object/{ty}", ectx))
        if e.weight not in (0, dt):
            viol.append((f"{tag}/weight-is-neither-time-difference-nor-zero/{ty}", ectx))
        if ty in ("DEPENDENCY", "SYNC_DEPENDENCY") and e.weight != 0:
            viol.append((f"{tag}/dependency-edge-with-weight/{ty}", ectx))
        if e.weight != dt and dt >= 0:
            # zero although time passes: only dependencies, synchronisation, the closing segment of a blocking call,
            # and - when the option asks for them - the extra zero-weight launch edges
            if ty == "KERNEL_KERNEL_DELAY":
                viol.append((f"{tag}/kernel-kernel-delay-does-not-weigh-the-time-difference", ectx))
            elif ty == "KERNEL_LAUNCH_DELAY" and not ctx.get("flag"):
                viol.append((f"{tag}/launch-delay-does-not-weigh-the-time-difference-although-zero-weight-launch-edges-are-off", ectx))
            elif ty == "OPERATOR_KERNEL" and not (rv is not None and rv["stream"] == -1 and not sv.is_start
                                                  and rv["name"] in BLOCKING_CALLS):
                viol.append((f"{tag}/span-edge-weighs-zero-outside-a-blocking-call", ectx))
        if ru is None or rv is None:
            continue
        if ty == "KERNEL_LAUNCH_DELAY":
            stats["launch"] += 1
            if not (su.is_start and sv.is_start and ru["cat"] in ("cuda_runtime", "cuda_driver") and lk[ru["id"]] == rv["id"] and rv["stream"] > 0):
                viol.append((f"{tag}/launch-delay-edge-does-not-join-launch-and-its-kernel", ectx))
        elif ty == "KERNEL_KERNEL_DELAY":
            stats["kk"] += 1
            ok = (not su.is_start) and sv.is_start and ru["stream"] > 0 and ru["stream"] == rv["stream"] and nxt.get(ru["id"], {}).get("id") == rv["id"]
            if not ok:
                viol.append((f"{tag}/kernel-kernel-edge-does-not-join-consecutive-kernels-of-a-stream", ectx))
        elif ty == "SYNC_DEPENDENCY":
            stats["sync"] += 1
            src_ok = (not su.is_start) and ru["stream"] > 0
            dst_host = (not sv.is_start) and rv["stream"] == -1 and rv["name"] in SYNC_CALLS
            dst_kernel = sv.is_start and rv["stream"] > 0 and rv["stream"] != ru["stream"]
            if not (src_ok and (dst_host or dst_kernel)):
                viol.append((f"{tag}/sync-edge-endpoints-wrong", ectx))
        elif ty == "OPERATOR_KERNEL":
            same = (ru["stream"] == rv["stream"] and (ru["stream"] > 0 and ru["id"] == rv["id"] or
                                                      (ru["stream"] == -1 and (ru["pid"], ru["tid"]) == (rv["pid"], rv["tid"]))))
            if not same:
                viol.append((f"{tag}/span-edge-joins-different-threads-or-streams", ectx))
        elif ty == "DEPENDENCY":
            if not (ru["stream"] == -1 and rv["stream"] == -1 and (not su.is_start) and sv.is_start):
                viol.append((f"{tag}/dependency-edge-endpoints-wrong", ectx))
    if has_cycle(len(nodes), edges):
        viol.append((f"{tag}/graph-has-a-cycle", dict(ctx)))
    return stats


def check(world) -> Dict[str, Any]:
    from mc import htaenv

    viol: List[Any] = []
    ta, rank, evs, m = cpworlds.load(world)
    rows = refmodel.parse_rows(evs)
    kept = {int(i) for i in ta.t.get_trace(rank).index}
    execs = 0
    agg = {"launch": 0, "kk": 0, "sync": 0}
    clipped = False
    max_dev = bounds(world.get("tier", "quick"))["tie_max_dev"]
    for (ann, inst) in cpworlds.windows(world):
        # on first, then off: the option is read per analysis, so inside one world it is switched on -> off and, in the
        # sequence of worlds a worker analyses, off -> on
        both = (1, 0)
        for flag in ((world["flag"],) if ann else both):
            def run():
                try:
                    return cpworlds.analyse(ta, ann, inst, flag, rank)
                except Exception as ex:
                    import traceback

                    from mc.engine import _where

                    return ("EXC", f"{type(ex).__name__}/{_where(traceback.format_exc())}", repr(ex)[:300])

            for plan, res in nondet.explore_ties(run, max_dev=max_dev if ann == "" else 0, with_reverse=(ann == ""), cap=12):
                execs += 1
                tag = "stable" if plan == "stable" else "tie-order"
                ctx = dict(annotation=ann, instance=inst, flag=flag, plan=plan, program=world["program"], profile=world["profile"])
                if res is None:
                    viol.append((f"{tag}/analysis-returned-nothing", ctx))
                    continue
                if res[0] == "EXC":
                    viol.append((f"{tag}/analysis-raises/{res[1]}", dict(ctx, error=res[2])))
                    continue
                g, ok = res
                if not ok:
                    viol.append((f"{tag}/analysis-reports-failure", ctx))
                    continue
                want = cpworlds.expected_window_ids(rows, m, ann, inst, kept)
                got = {int(i) for i in g.trace_df.index}
                if want is not None and got != want:
                    viol.append((f"{tag}/window-membership-wrong/{'named' if ann else 'whole-trace'}",
                                 dict(ctx, extra=sorted(got - want), missing=sorted(want - got))))
                clipped |= len(got) < len(kept)
                s = check_graph(g, rows, m, tag, viol, ctx)
                for k in agg:
                    agg[k] = max(agg[k], s[k])
    nontrivial = (agg["launch"] > 0 and agg["kk"] > 0 and agg["sync"] > 0) or clipped
    return dict(viol=_dedupe(viol), nontrivial=nontrivial, outcome=(tuple(sorted(agg.items())), clipped, len(rows)), execs=execs,
                extra_transitions=execs - 1)


def _dedupe(v):
    seen, out = set(), []
    for s, d in v:
        if s not in seen:
            seen.add(s)
            out.append((s, d))
    return out
