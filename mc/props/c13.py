"""C13 - call-graph attributes (depth, height, kernel totals) agree with the tree."""
from __future__ import annotations

import itertools
from typing import Any, Dict, Iterator, List

from mc import kineto, laminar, refmodel, reftree

ID = "C13"
TECHNIQUE = ("bounded-exhaustive enumeration of host operator trees x launch placements x device activities (missing "
             "partners, two streams, zero-length) and of main/autograd thread layouts, real CallGraph on a loaded "
             "(time-shifted) trace vs attributes recomputed from the reference tree")
RULE = ("single-thread family: every positive-duration laminar family of <=N host ops x every placement of <=K launch "
        "calls (inside any op or at top level) x per launch {kernel on stream 7|9 with duration 0|3, no device "
        "activity} x optional unlinked kernel x event ids beyond 127 with the graph built twice on one trace x host thread id in {100, and for small families 1, 2, 3}; two-thread family: main thread with 0..2 profiler steps and 0..2 "
        "'## backward ##' annotations x autograd-thread top-level ops placed inside / straddling / outside each "
        "annotation x {one autograd thread, two autograd threads, no step thread}, each also as rank 1 of a two-rank job with the call graph built over all ranks; epoch offset 1.7e15 so shifted "
        "and unshifted times differ. non-trivial = some host event has device descendants below a child, or a "
        "backward op is re-parented")
ASSUMPTIONS = [
    "host events have positive duration here (zero-duration nesting is C03's subject and its known finding)",
    "a device activity without linked host call is outside the graph; its stack columns are not checked",
    "the parent of a top-level host event is reported as some negative sentinel",
]
E0 = 1_700_000_000_000_000
S = 8  # scale of laminar coordinates


def bounds(tier: str) -> Dict[str, Any]:
    if tier == "quick":
        return dict(N=3, K=2, chunk=12)
    return dict(N=4, K=2, chunk=12)


def pos_families(n):
    for fam in laminar.families(n):
        if all(e > s for s, e in fam):
            yield fam


def worlds(tier: str, stats: Dict[str, Any]) -> Iterator[Any]:
    b = bounds(tier)
    dev_opts = [("k", 7, 3), ("k", 9, 0), ("none",)]
    for n in range(1, b["N"] + 1):
        for fam in pos_families(n):
            places = list(range(-1, n))  # -1 = top level after everything, j = inside op j (right after its start)
            for k in range(0, b["K"] + 1):
                for pl in itertools.combinations_with_replacement(places, k):
                    for devs in itertools.product(dev_opts, repeat=k):
                        for orphan in ((False, True) if k <= 1 else (False,)):
                            stats["transitions"] += 1
                            yield dict(mode="tree", fam=[list(x) for x in fam], launches=[[p, list(d)] for p, d in zip(pl, devs)],
                                       orphan=orphan)
                            if k >= 1 and not orphan and n <= 2:
                                # a short-lived helper thread with the highest thread id, active only at the very beginning
                                stats["transitions"] += 1
                                yield dict(mode="tree", fam=[list(x) for x in fam], launches=[[p, list(d)] for p, d in zip(pl, devs)],
                                           orphan=False, helper_thread=True)
                            if k >= 1 and not orphan and n <= 2:
                                # event ids beyond 127 (metadata entries first) and the call graph built twice on the same trace
                                stats["transitions"] += 1
                                yield dict(mode="tree", fam=[list(x) for x in fam], launches=[[p, list(d)] for p, d in zip(pl, devs)],
                                           orphan=False, pad=140)
                            if k >= 1 and not orphan:
                                stats["transitions"] += 1
                                yield dict(mode="tree", fam=[list(x) for x in fam], launches=[[p, list(d)] for p, d in zip(pl, devs)],
                                           orphan=False, file_order="reversed")
                            if n <= 2 and not orphan:
                                # small thread ids: the root of a thread's stack is numbered -tid, next to the sentinels -1 / -2
                                for tid in (1, 2, 3):
                                    stats["transitions"] += 1
                                    yield dict(mode="tree", fam=[list(x) for x in fam], launches=[[p, list(d)] for p, d in zip(pl, devs)],
                                               orphan=False, tid=tid)
    # two-thread family
    ann_layouts = [
        dict(steps=[], bwd=[]),
        dict(steps=[[0, 40]], bwd=[]),
        dict(steps=[[0, 40]], bwd=[[10, 30]]),
        dict(steps=[[0, 40], [40, 80]], bwd=[[10, 30], [50, 70]]),
        dict(steps=[[0, 40], [40, 80]], bwd=[]),
        dict(steps=[], bwd=[[10, 30]]),
        # three and four steps: two or three annotations survive the trimming of the trailing step
        dict(steps=[[0, 40], [40, 80], [80, 120]], bwd=[]),
        dict(steps=[[0, 40], [40, 80], [80, 120]], bwd=[[10, 30], [50, 70]]),
        dict(steps=[[0, 30], [30, 60], [60, 90], [90, 120]], bwd=[]),
    ]
    bwd_ops = [[12, 6], [10, 20], [26, 8], [2, 6], [32, 6], [52, 6], [90, 5]]  # (start, dur) on the autograd thread
    for lay in ann_layouts:
        for n in (1, 2):
            for ops in itertools.combinations(bwd_ops, n):
                if n == 2 and ops[0][0] + ops[0][1] > ops[1][0]:
                    continue
                for variant in ("one-bwd", "two-bwd", "no-main-thread", "bwd-name-on-main"):
                    stats["transitions"] += 1
                    yield dict(mode="bwd", layout=lay, ops=[list(o) for o in ops], variant=variant)
                    if variant == "one-bwd" and len(lay["steps"]) + len(lay["bwd"]) >= 2:
                        # annotation records (and everything else) not in chronological order in the file
                        stats["transitions"] += 1
                        yield dict(mode="bwd", layout=lay, ops=[list(o) for o in ops], variant=variant, file_order="reversed")


def build_tree_world(w) -> List[Dict[str, Any]]:
    tid = w.get("tid", 100)
    evs = [kineto.cpu_op("aten::root", E0 - 9, 3, ext=0, tid=tid)]
    fam = w["fam"]
    for j, (s, e) in enumerate(fam):
        evs.append(kineto.cpu_op(f"aten::op{j}", E0 + S * s, S * (e - s), ext=j + 1, tid=tid))
    T = E0 + S * (max(e for _, e in fam) + 1)
    corr = 50
    used: Dict[int, int] = {}
    for place, dev in w["launches"]:
        slot = used.get(place, 0)
        used[place] = slot + 1
        if place == -1:
            ts = T + 3 * slot
        else:
            # right after the start of op `place`, before any nested op can begin (nested ops start >= S later
            # unless they share the start: then the launch [s+1+2*slot, +1) still nests properly inside both or
            # inside the shorter one, which the reference computes anyway)
            ts = E0 + S * fam[place][0] + 1 + 2 * slot
        evs.append(kineto.runtime("cudaLaunchKernel", ts, 1, corr, tid=tid))
        if dev[0] == "k":
            evs.append(kineto.kernel(f"kern_{dev[1]}", ts + 2 + 5 * slot, dev[2], dev[1], corr))
        corr += 1
    if w["orphan"]:
        evs.append(kineto.kernel("kern_orphan", E0 + 1, 2, 9, 99))
    if w.get("file_order") == "reversed":
        evs = evs[:1] + evs[1:][::-1]
    if w.get("helper_thread"):
        evs.append(kineto.cpu_op("aten::helper", E0 - 9, 1, ext=77, tid=9000))
    if w.get("pad"):
        evs = evs[:1] + [kineto.meta_event(E0 + k) for k in range(w["pad"])] + evs[1:]
    return evs


def build_bwd_world(w) -> List[Dict[str, Any]]:
    lay, variant = w["layout"], w["variant"]
    evs = [kineto.cpu_op("aten::root", E0 - 9, 3, ext=0, tid=100)]
    main_tid = 100
    if variant != "no-main-thread":
        for k, (a, b) in enumerate(lay["steps"]):
            evs.append(kineto.step(5 + k, E0 + a, b - a, tid=main_tid))
        for (a, b) in lay["bwd"]:
            evs.append(kineto.annotation("## backward ##", E0 + a, b - a, tid=main_tid))
    if variant == "bwd-name-on-main":
        evs.append(kineto.cpu_op("autograd::engine::evaluate_function: MainBackward", E0 + 95, 2, ext=7, tid=main_tid))
    corr = 60
    for k, (s, d) in enumerate(w["ops"]):
        tid = 101 if (variant != "two-bwd" or k == 0) else 102
        evs.append(kineto.cpu_op(f"autograd::engine::evaluate_function: Op{k}Backward", E0 + s, d, ext=10 + k, tid=tid))
        evs.append(kineto.cpu_op(f"aten::op{k}_backward", E0 + s + 1, max(d - 2, 1), ext=20 + k, tid=tid))
        evs.append(kineto.runtime("cudaLaunchKernel", E0 + s + 2, 1, corr, tid=tid))
        evs.append(kineto.kernel("kern_bwd", E0 + s + 4 + k, 3, 7, corr))
        corr += 1
    if variant == "two-bwd" and len(w["ops"]) == 1:
        evs.append(kineto.cpu_op("autograd::engine::evaluate_function: OtherBackward", E0 + 14, 2, ext=30, tid=102))
    if w.get("file_order") == "reversed":
        evs = evs[:1] + evs[1:][::-1]
    return evs


COLS = ["depth", "height", "num_kernels", "kernel_dur_sum", "first_kernel_start", "last_kernel_end", "kernel_span"]


RANK0_FIXED = dict(mode="bwd", layout=dict(steps=[[0, 40]], bwd=[[10, 30]]), ops=[[12, 6]], variant="one-bwd")


def check(world) -> Dict[str, Any]:
    from hta.common.trace_call_graph import CallGraph
    from mc import htaenv

    viol: List[Any] = []
    evs = build_tree_world(world) if world["mode"] == "tree" else build_bwd_world(world)
    ta, _ = htaenv.load_world({0: evs})
    cg = CallGraph(ta.t, ranks=[0])
    res = verify_rank(cg, 0, evs, evs, world["mode"], world, viol)
    execs = 1
    if world.get("pad") or world["mode"] == "bwd":
        # a second call graph on the same Trace object (every kernel-sequence / counter analysis builds one)
        cg_b = CallGraph(ta.t, ranks=[0])
        verify_rank(cg_b, 0, evs, evs, world["mode"] + "/second-build-on-same-trace", world, viol)
        execs += 1
    if world["mode"] == "bwd":
        # the same trace as rank 1 of a two-rank job, call graph built over all ranks
        evs0 = build_bwd_world(RANK0_FIXED)
        ta2, _ = htaenv.load_world({0: evs0, 1: evs})
        cg2 = CallGraph(ta2.t)
        verify_rank(cg2, 0, evs0, evs0 + evs, "bwd-rank0-of-2", world, viol)
        verify_rank(cg2, 1, evs, evs0 + evs, "bwd-rank1-of-2", world, viol)
        execs += 1
    res["viol"] = _dedupe(viol)
    res["execs"] = execs
    return res


def verify_rank(cg, rank: int, evs, all_evs, tag: str, world, viol: List[Any]) -> Dict[str, Any]:
    rows = refmodel.parse_rows(evs)
    m = min(r["ts"] for r in refmodel.parse_rows(all_evs))
    df = cg.trace_data.get_trace(rank)
    ctx = dict(world=world)
    got_ids = {int(i) for i in df.index}
    # with two or more profiler steps the loader trims the trailing step (C12); the tree is that of the kept rows
    rows = [r for r in rows if r["id"] in got_ids]
    ref = reftree.build(rows)
    for i, e in ref["info"].items():
        g = df.loc[i]
        isdev = i in ref["device"]
        kind = "device" if isdev else "host"
        gp = int(g["parent"])
        if e["parent"] is None:
            if gp >= 0:
                viol.append((f"{tag}/parent-wrong/{kind}/top-level-event-has-parent", dict(ctx, id=i, got=gp)))
        elif gp != e["parent"]:
            rel = "/backward-relinking" if (i in ref["relinked"] or (world["mode"] == "bwd" and ref["by"][i]["name"].startswith("autograd::"))) else ""
            viol.append((f"{tag}/parent-wrong/{kind}{rel}", dict(ctx, id=i, got=gp, expected=e["parent"])))
        want = dict(depth=e["depth"], height=e["height"], num_kernels=e["num_kernels"], kernel_dur_sum=e["kernel_dur_sum"])
        if e["num_kernels"] > 0:
            want.update(first_kernel_start=e["first_kernel_start"] - m, last_kernel_end=e["last_kernel_end"] - m,
                        kernel_span=e["last_kernel_end"] - e["first_kernel_start"])
        else:
            want.update(first_kernel_start=-1, last_kernel_end=-1, kernel_span=0)
        for c in COLS:
            if isdev and c in ("num_kernels", "kernel_dur_sum", "first_kernel_start", "last_kernel_end", "kernel_span"):
                continue  # the statement defines the aggregates for host events
            if float(g[c]) != float(want[c]):
                viol.append((f"{tag}/{c}-wrong/{kind}", dict(ctx, id=i, name=ref["by"][i]["name"], got=float(g[c]), expected=want[c])))
    # get_stack_of_node: node + descendants + ancestors
    for i, e in (ref["info"].items() if rank == 0 else []):
        anc, p = [], e["parent"]
        while p is not None:
            anc.append(p)
            p = ref["info"][p]["parent"]
        desc = ref["descendants"](i) if i not in ref["device"] else []
        for skip in (False, True):
            try:
                st = cg.get_stack_of_node(i, skip_ancestors=skip)
                got = sorted(int(x) for x in st.index)
            except Exception as ex:
                viol.append((f"{tag}/get_stack_of_node-crash/{type(ex).__name__}", dict(ctx, id=i, skip_ancestors=skip, error=repr(ex)[:200])))
                continue
            if i in ref["device"]:
                want_ids = sorted({i}) if skip else sorted(set([i] + anc))
            else:
                want_ids = sorted(set([i] + desc)) if skip else sorted(set([i] + anc + desc))
            if got != want_ids:
                kind = "device" if i in ref["device"] else "host"
                viol.append((f"{tag}/get_stack_of_node-wrong-members/{kind}/skip_ancestors={skip}", dict(ctx, id=i, got=got, expected=want_ids)))
    deep = any(e["num_kernels"] > 0 and not any(c in ref["device"] for c in ref["children"].get(i, [])) for i, e in ref["info"].items()
               if i not in ref["device"])
    nontrivial = deep or bool(ref["relinked"])
    outcome = tuple(sorted((i, e["depth"], e["height"], e["num_kernels"]) for i, e in ref["info"].items()))
    return dict(viol=[], nontrivial=nontrivial, outcome=outcome, execs=1)


def _dedupe(v):
    seen, out = set(), []
    for s, d in v:
        if s not in seen:
            seen.add(s)
            out.append((s, d))
    return out
