"""C06 - idle-time breakdown: gaps between stream-consecutive kernels, classified by rule."""
from __future__ import annotations

import itertools
from typing import Any, Dict, Iterator, List

from mc import kineto, nondet, refmodel

ID = "C06"
TECHNIQUE = ("bounded-exhaustive enumeration of per-stream kernel sequences x launch-call placements (before/at/"
             "after the previous kernel's end, missing, uncorrelated) x thresholds x stream subsets x file orders "
             "x sort tie orders, real get_idle_time_breakdown vs gap-by-gap reference classification")
RULE = ("stream 7: every sequence of <=K pairwise non-overlapping kernels (touching and zero length allowed) with "
        "endpoints in G_T; each kernel's launch call starts 1 before / at / 1 after the previous kernel's end, or "
        "is missing (dangling correlation), or the kernel carries no correlation; launch API name in {cudaLaunchKernel, "
        "cudaLaunchCooperativeKernel, cudaMemcpy, cudaGraphLaunch}; a sync record on the stream must "
        "be ignored; stream 9 empty or a fixed 2-kernel pattern; event 0 (the leading host op) early or late; "
        "x thresholds {-1,0,1,2,30} x stream subsets x ranks {[0],[0,1],[1,0]} (the second rank owns a stream the first lacks) x file order {generated, reversed}; session slice (the same object ran a critical-path analysis of one launch window | decode_symbol_ids | the other summary getters before) x N1 "
        "tie orders. non-trivial = at least two distinct categories have positive idle time")
ASSUMPTIONS = [
    "well-formed trace, kernels of one stream do not overlap (consecutive kernels satisfy end <= next start)",
    "ratios are compared only when the stream's total idle time is positive; a category without a row means 0",
    "an unstable sort may return rows with equal keys in any order",
]
E0 = 1_000_000
DELAYS = [0, 1, 2, 30, -1]


def bounds(tier: str) -> Dict[str, Any]:
    if tier == "quick":
        return dict(cfgs=[[5, 2], [3, 3]], chunk=16)
    return dict(cfgs=[[6, 2], [4, 3], [5, 3]], chunk=16)


def seqs(T: int, k: int):
    """all weakly increasing endpoint sequences s1<=e1<=s2<=e2... in 0..T"""
    for pts in itertools.combinations_with_replacement(range(T + 1), 2 * k):
        yield [(pts[2 * i], pts[2 * i + 1]) for i in range(k)]


def worlds(tier: str, stats: Dict[str, Any]) -> Iterator[Any]:
    b = bounds(tier)
    seen = set()
    for (T, K) in b["cfgs"]:
        for k in range(1, K + 1):
            for ks in seqs(T, k):
                if ks[0][0] != 0:
                    continue  # translation: first kernel starts at 0 (launch classes are relative)
                opts = []
                for i, (s, e) in enumerate(ks):
                    if i == 0:
                        o = [("L", 0), ("D", None), ("N", None)]
                    else:
                        pe = ks[i - 1][1]
                        o = [("L", t) for t in (pe - 1, pe, pe + 1) if 0 <= t <= s] + [("D", None), ("N", None)]
                    opts.append(o)
                for choice in itertools.product(*opts):
                    stats["transitions"] += 1
                    key = (tuple(ks), choice)
                    if key in seen:
                        continue
                    seen.add(key)
                    dangling = any(c[0] == "D" for c in choice)
                    for root in ((0, T + 3) if dangling else (0,)):
                        for s9 in ((False, True) if k <= 2 else (False,)):
                            yield dict(T=T, kernels=[list(x) for x in ks], launch=[list(c) for c in choice],
                                       root=root, s9=s9)
                    if k == 2 and all(c[0] == "L" for c in choice):
                        # session slice: the same object was used for other analyses before
                        for pk in ("cp", "decode", "getters"):
                            stats["transitions"] += 1
                            yield dict(T=T, kernels=[list(x) for x in ks], launch=[list(c) for c in choice], root=0, s9=False,
                                       prior=pk)
                    if k == 2 and any(c[0] == "L" for c in choice[1:]):
                        # the launch call is whatever host call is linked to the kernel, not only the common launch APIs
                        for lname in ("cudaLaunchCooperativeKernel", "cudaMemcpy", "cudaGraphLaunch"):
                            stats["transitions"] += 1
                            yield dict(T=T, kernels=[list(x) for x in ks], launch=[list(c) for c in choice], root=0, s9=False,
                                       launch_name=lname)


def build(w, rev=False) -> List[Dict[str, Any]]:
    evs = [kineto.cpu_op("aten::root", E0 + w["root"], 1, ext=0)]
    body = []
    corr = 30
    for (s, e), (kind, lt) in zip(w["kernels"], w["launch"]):
        if kind == "L":
            body.append(kineto.runtime(w.get("launch_name", "cudaLaunchKernel"), E0 + lt, 1, corr))
        k = kineto.kernel("kern_a", E0 + s, e - s, 7, corr)
        if kind == "N":
            del k["args"]["correlation"]
        body.append(k)
        corr += 1
    if w["kernels"]:
        body.append(kineto.cuda_sync("Stream Sync", E0, w["kernels"][-1][1] + 1, 7, 90))
    if w["s9"]:
        body.append(kineto.runtime("cudaLaunchKernel", E0 + 0, 1, 80))
        body.append(kineto.kernel("kern_b", E0 + 1, 1, 9, 80))
        body.append(kineto.runtime("cudaMemcpyAsync", E0 + 4, 1, 81))
        body.append(kineto.memcpy("Memcpy DtoD (Device -> Device)", E0 + 5, 2, 9, 81, bw=1.0))
    return evs + (body[::-1] if rev else body)


def expected(events, delay: int) -> Dict[int, Dict[str, float]]:
    rows = refmodel.parse_rows(events)
    lk = refmodel.links(rows)
    by = {r["id"]: r for r in rows}
    out: Dict[int, Dict[str, float]] = {}
    for stream in sorted({r["stream"] for r in rows if r["stream"] != -1}):
        ks = sorted((r for r in rows if r["stream"] == stream and r["cat"] in ("kernel", "gpu_memcpy", "gpu_memset")),
                    key=lambda r: (r["ts"], r["ts"] + r["dur"]))
        if not ks:
            continue
        cat = {"host_wait": 0, "kernel_wait": 0, "other": 0}
        for prev, cur in zip(ks, ks[1:]):
            pe = prev["ts"] + prev["dur"]
            gap = cur["ts"] - pe
            assert gap >= 0
            launch = by.get(lk[cur["id"]]) if lk[cur["id"]] > 0 else None
            if launch is not None and launch["ts"] > pe:
                cat["host_wait"] += gap
            elif gap < delay:
                cat["kernel_wait"] += gap
            else:
                cat["other"] += gap
        out[stream] = cat
    return out


def check(world) -> Dict[str, Any]:
    from mc import htaenv

    viol: List[Any] = []
    execs = 0
    nontrivial = False
    outcome = []
    for rev in (False, True):
        evs = build(world, rev)
        # with stream 9: rank 0 = the world without stream 9, rank 1 = the world with it (a later rank owning a stream the
        # first rank lacks), and the other way round when the file order is reversed
        if not world["s9"]:
            ranks = {0: evs}
        elif rev:
            ranks = {0: evs, 1: build(dict(world, s9=False), rev)}
        else:
            ranks = {0: build(dict(world, s9=False), rev), 1: evs}
        ta, _ = htaenv.load_world(ranks)
        if world.get("prior"):
            htaenv.prior_session(ta, world["prior"])
        tag0 = "file-reversed" if rev else "file-order"
        for delay in (DELAYS if not rev else [1]):
            exp = {r: expected(e, delay) for r, e in ranks.items()}
            # a strict subset is asked for first, the default (all streams) afterwards, on the same object
            sub = world["s9"] and delay == 1 and rev
            subsets = ([[7]] if sub else []) + [None] + ([[9], [9, 7]] if sub else [])
            for streams in subsets:
                for rk in ([None, [0, 1], [1, 0]] if len(ranks) > 1 and streams is None else [None]):
                    def run():
                        df, _ = ta.get_idle_time_breakdown(ranks=rk, streams=streams, visualize=False,
                                                           consecutive_kernel_delay=delay)
                        res: Dict[Any, Dict[str, Any]] = {}
                        for _, row in df.iterrows():
                            key = (int(row["rank"]), int(row["stream"]))
                            if row["idle_category"] in res.setdefault(key, {}):
                                res[key]["dup"] = True
                            res[key][row["idle_category"]] = (float(row["idle_time"]), float(row["idle_time_ratio"]))
                        return res

                    use_ties = (not rev) and delay == 1 and streams is None and rk is None
                    for plan, res in (nondet.explore_ties(run, max_dev=1, cap=8) if use_ties else [("stable", run())]):
                        execs += 1
                        tag = tag0 if plan == "stable" else "tie-order"
                        want_keys = {(r, s) for r in (rk or [0]) for s in exp[r]
                                     if (streams is None or s in streams) and r in ranks}
                        if streams is not None and rk is None:
                            want_keys = {(0, s) for s in streams if s in exp[0]}
                        if set(res) != want_keys:
                            viol.append((f"stream-set/{tag}", dict(plan=plan, got=sorted(res), expected=sorted(want_keys), delay=delay, streams=streams)))
                            continue
                        for (r, s) in want_keys:
                            e = exp[r][s]
                            g = res[(r, s)]
                            tot = sum(e.values())
                            for c in e:
                                gv = g.get(c, (0.0, 0.0))
                                if gv[0] != e[c]:
                                    neg = "negative-gap" if any(v[0] < 0 for k_, v in g.items() if k_ != "dup") else "time"
                                    viol.append((f"category-{neg}-mismatch/{tag}",
                                                 dict(plan=plan, rank=r, stream=s, delay=delay, expected=e, got=g, world=world)))
                                    break
                                if tot > 0 and abs(gv[1] - e[c] / tot) > 0.005 + 1e-9:
                                    viol.append((f"ratio-mismatch/{tag}", dict(plan=plan, rank=r, stream=s, delay=delay, expected=e, got=g)))
                            if tot > 0 and abs(sum(v[1] for k_, v in g.items() if k_ != "dup") - 1) > 0.02:
                                viol.append((f"ratios-do-not-sum-to-1/{tag}", dict(rank=r, stream=s, got=g)))
            if not rev:
                e7 = exp[0].get(7, {})
                nontrivial |= sum(1 for v in e7.values() if v > 0) >= 2
                outcome.append(tuple(sorted(e7.items())))
    return dict(viol=_dedupe(viol), nontrivial=nontrivial, outcome=tuple(outcome), execs=execs,
                extra_transitions=execs - 1)


def _dedupe(v):
    seen, out = set(), []
    for s, d in v:
        if s not in seen:
            seen.add(s)
            out.append((s, d))
    return out
