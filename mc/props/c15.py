"""C15 - launch statistics list every launch/activity pair with exact durations and delay."""
from __future__ import annotations

import itertools
from typing import Any, Dict, Iterator, List

from mc import kineto, refmodel

ID = "C15"
TECHNIQUE = ("bounded-exhaustive enumeration of launch/activity patterns (every launch kind x activity kind x "
             "missing partners x before/equal/after timing x durations) x include_memory_events x rank subsets, "
             "real get_cuda_kernel_launch_stats vs per-pair reference")
RULE = ("correlation A: host call in {none, cudaLaunchKernel, cudaLaunchKernelExC, cudaMemcpyAsync, "
        "cudaMemsetAsync, cudaStreamSynchronize} x device record in {none, kernel, memcpy, memset, stream sync on "
        "a stream} x launch duration {1,3} x activity start - launch end in {-1,0,2} x activity duration {0,1,3}; "
        "correlation B: one of 4 fixed background patterns; optional uncorrelated extras (launch call without "
        "correlation id + GPU annotation); a magnitude family (raw timestamps/durations near the int8/int16/int32 "
        "boundaries); a steps family (2-3 profiler steps, a launch call of a second host thread at/around/across the start of the trailing step, which the loader trims); x include_memory_events {T,F} x ranks {None,[0],[1],[0,1],[1,0]} with a "
        "second rank whose non-launch pairs reuse the first rank's correlation ids. worlds with background pattern 1 run a critical path analysis of a one-call window on the same object first. non-trivial = at least one expected row and at least one excluded call or activity")
ASSUMPTIONS = [
    "well-formed trace; a launch call is a runtime call named cudaLaunchKernel, cudaLaunchKernelExC, "
    "cudaMemcpyAsync or cudaMemsetAsync (memory launches only when include_memory_events)",
]
E0 = 1_700_000_000_000_000
HOSTS = [None, "cudaLaunchKernel", "cudaLaunchKernelExC", "cudaMemcpyAsync", "cudaMemsetAsync", "cudaStreamSynchronize"]
DEVS = [None, "kernel", "memcpy", "memset", "ssync"]
KERNEL_LAUNCH = ("cudaLaunchKernel", "cudaLaunchKernelExC")
MEM_LAUNCH = ("cudaMemcpyAsync", "cudaMemsetAsync")


def bounds(tier: str) -> Dict[str, Any]:
    return dict(extras=[False, True], chunk=16,
                dl=[1, 3] if tier == "quick" else [1, 2, 3], delta=[-1, 0, 2] if tier == "quick" else [-2, -1, 0, 1, 2], ddur=[0, 1, 3])


def dev_event(kind, ts, dur, stream, corr):
    if kind == "kernel":
        return kineto.kernel("kern_a", ts, dur, stream, corr)
    if kind == "memcpy":
        return kineto.memcpy("Memcpy DtoD (Device -> Device)", ts, dur, stream, corr, bw=1.0)
    if kind == "memset":
        return kineto.memset("Memset (Device)", ts, dur, stream, corr)
    if kind == "ssync":
        return kineto.cuda_sync("Stream Sync", ts, dur, stream, corr)
    raise ValueError(kind)


BACKGROUND = [
    [],
    [("cudaLaunchKernel", 20, 2, 5), ("kernel", 25, 4, 7, 5)],
    [("cudaMemcpyAsync", 20, 2, 5), ("memcpy", 21, 0, 9, 5)],
    [("cudaLaunchKernel", 20, 2, 5), ("cudaEventSynchronize", 30, 2, 6), ("esync", 30, 2, -1, 6)],
]


def bg_events(k: int):
    out = []
    for it in BACKGROUND[k]:
        if it[0].startswith("cuda"):
            out.append(kineto.runtime(it[0], E0 + it[1], it[2], it[3]))
        elif it[0] == "esync":
            out.append(kineto.cuda_sync("Event Sync", E0 + it[1], it[2], -1, it[4]))
        else:
            out.append(dev_event(it[0], E0 + it[1], it[2], it[3], it[4]))
    return out


def worlds(tier: str, stats: Dict[str, Any]) -> Iterator[Any]:
    b = bounds(tier)
    for w in magnitude_worlds():
        stats["transitions"] += 1
        yield w
    for w in steps_worlds():
        stats["transitions"] += 1
        yield w
    for h, d in itertools.product(HOSTS, DEVS):
        timing = list(itertools.product(b["dl"], b["delta"], b["ddur"])) if (h and d) else [(1, 0, 1)]
        for (dl, delta, ddur) in timing:
            for bg in range(len(BACKGROUND)):
                for extras in b["extras"]:
                    stats["transitions"] += 1
                    evs = [kineto.cpu_op("aten::root", E0, 100, ext=0)]
                    if h:
                        evs.append(kineto.runtime(h, E0 + 4, dl, 3))
                    if d:
                        evs.append(dev_event(d, E0 + 4 + dl + delta, ddur, 7, 3))
                    evs += bg_events(bg)
                    if extras:
                        launch = kineto.runtime("cudaLaunchKernel", E0 + 50, 1, 9)
                        del launch["args"]["correlation"]
                        evs += [launch, kineto.gpu_annotation("gpu_anno", E0 + 51, 3, 7)]
                    yield dict(host=h, dev=d, timing=[dl, delta, ddur], bg=bg, extras=extras, events=evs)
                    if h and d and bg in (1, 3) and not extras:
                        stats["transitions"] += 1
                        yield dict(host=h, dev=d, timing=[dl, delta, ddur], bg=bg, extras=extras, file_order="reversed",
                                   events=evs[:1] + evs[1:][::-1])


def steps_worlds():
    """two or three profiler steps (the loader drops the trailing one): launch calls of a second host thread running
    across the start of the last step; exactly the pairs whose call starts before that step remain linked pairs"""
    for nsteps in (2, 3):
        last = 40 * (nsteps - 1)
        for off in (-5, -2, -1, 0, 1):
            for ldur in (1, 4):
                evs = [kineto.cpu_op("aten::root", E0 - 2, 1, ext=0)]
                for k in range(nsteps):
                    evs.append(kineto.step(5 + k, E0 + 40 * k, 40))
                pairs = [(E0 + 10, 2, 3, 100), (E0 + last + 10, 2, 4, 100), (E0 + last + off, ldur, 6, 101)]
                kept = list(evs[:-1])   # everything but the trailing step annotation
                for (ts, dur, corr, tid) in pairs:
                    pe = [kineto.runtime("cudaLaunchKernel", ts, dur, corr, tid=tid), kineto.kernel("kern_a", ts + dur + 1, 3, 7, corr)]
                    evs += pe
                    if ts < E0 + last:
                        kept += pe
                yield dict(host="cudaLaunchKernel", dev="kernel", timing=["steps", nsteps, off, ldur], bg=0, extras=False,
                           events=evs, events_kept=kept, rank1=evs, rank1_kept=kept)


def magnitude_worlds():
    """small raw values whose sums cross the int8/int16/int32 boundaries (the parser downcasts integer columns)"""
    for B in (127, 32767, 2**31 - 1):
        for (lts, ldur, ats) in ((B - 27, 40, B - 10), (B - 27, 40, B), (B - 27, 20, B - 5), (B - 50, B, B - 3)):
            for adur in (0, 9):
                evs = [kineto.cpu_op("aten::root", 0, 2, ext=0),
                       kineto.runtime("cudaLaunchKernel", lts, ldur, 3),
                       kineto.kernel("kern_a", ats, adur, 7, 3),
                       kineto.runtime("cudaMemcpyAsync", 4, 2, 5),
                       kineto.memcpy("Memcpy DtoD (Device -> Device)", 9, 1, 9, 5, bw=1.0)]
                yield dict(host="cudaLaunchKernel", dev="kernel", timing=["magnitude", B, lts, ldur, ats, adur], bg=0,
                           extras=False, events=evs)


# rank 1 reuses rank 0's correlation ids (3 and 5) for pairs that are no launches: correlation ids are per rank
RANK1 = [kineto.cpu_op("aten::root", E0 + 1, 100, ext=0), kineto.runtime("cudaMemsetAsync", E0 + 6, 2, 8),
         kineto.memset("Memset (Device)", E0 + 7, 5, 7, 8), kineto.runtime("cudaLaunchKernelExC", E0 + 10, 1, 9),
         kineto.kernel("kern_b", E0 + 30, 2, 9, 9),
         kineto.runtime("cudaStreamSynchronize", E0 + 40, 3, 3), kineto.cuda_sync("Stream Sync", E0 + 40, 3, 7, 3),
         kineto.runtime("cudaMemcpyAsync", E0 + 50, 2, 5), kineto.memcpy("Memcpy DtoD (Device -> Device)", E0 + 53, 2, 9, 5, bw=1.0)]


def expected(events, mem: bool):
    rows = refmodel.parse_rows(events)
    lk = refmodel.links(rows)
    by = {r["id"]: r for r in rows}
    out = []
    for r in rows:
        if r["cat"] != "cuda_runtime" or lk[r["id"]] <= 0:
            continue
        if not (r["name"] in KERNEL_LAUNCH or (mem and r["name"] in MEM_LAUNCH)):
            continue
        a = by[lk[r["id"]]]
        if a["stream"] == -1:
            continue
        out.append((r["corr"], r["dur"], a["dur"], max(0, a["ts"] - (r["ts"] + r["dur"]))))
    return sorted(out)


def check(world) -> Dict[str, Any]:
    from mc import htaenv

    viol: List[Any] = []
    ranks = {0: world["events"], 1: world.get("rank1", RANK1)}
    ta, _ = htaenv.load_world(ranks)
    # what the loader keeps (trailing profiler step trimmed, C12) is what the statistics are about
    ranks = {0: world.get("events_kept", world["events"]), 1: world.get("rank1_kept", RANK1)}
    execs = 0
    if world["bg"] == 1 and world["timing"][0] != "magnitude":
        # an earlier analysis of the same session: critical path of the window of one launch call (its outcome is not judged here)
        try:
            ta.critical_path_analysis(rank=0, annotation="cudaLaunchKernel", instance_id=0)
        except Exception:
            pass
    n_rows = 0
    for mem in (True, False):
        exp = {r: expected(e, mem) for r, e in ranks.items()}
        for req in (None, [0], [1], [0, 1], [1, 0]):
            execs += 1
            res = ta.get_cuda_kernel_launch_stats(ranks=req, include_memory_events=mem, visualize=False)
            want = req or [0]
            tag = f"mem={mem}"
            if sorted(res) != sorted(want):
                viol.append((f"rank-set/{tag}", dict(req=req, got=sorted(res))))
                continue
            for r in want:
                df = res[r]
                got = sorted((int(a), float(b_), float(c), float(d)) for a, b_, c, d in
                             zip(df["correlation"], df["cpu_duration"], df["gpu_duration"], df["launch_delay"]))
                e = [(a, float(b_), float(c), float(d)) for (a, b_, c, d) in exp[r]]
                if got != e:
                    gk, ek = [g[0] for g in got], [x[0] for x in e]
                    if gk != ek:
                        kind = "extra-row" if len(gk) > len(ek) or set(gk) - set(ek) else "missing-row"
                    elif [g[3] for g in got] != [x[3] for x in e]:
                        kind = "launch_delay-wrong"
                    else:
                        kind = "duration-wrong"
                    viol.append((f"{kind}/{tag}", dict(req=req, rank=r, got=got, expected=e, host=world["host"], dev=world["dev"],
                                                        timing=world["timing"], bg=world["bg"], extras=world["extras"])))
        n_rows = max(n_rows, len(exp[0]))
    e_t, e_f = expected(ranks[0], True), expected(ranks[0], False)
    nontrivial = len(e_t) >= 1 and (len(e_t) != len(e_f) or world["dev"] == "ssync" or world["host"] is None or world["dev"] is None or world["bg"] == 3)
    return dict(viol=_dedupe(viol), nontrivial=nontrivial, outcome=(tuple(e_t), tuple(e_f)), execs=execs,
                extra_transitions=execs - 1)


def _dedupe(v):
    seen, out = set(), []
    for s, d in v:
        if s not in seen:
            seen.add(s)
            out.append((s, d))
    return out
