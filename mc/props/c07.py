"""C07 - communication/computation overlap is the exact time ratio."""
from __future__ import annotations

from typing import Any, Dict, Iterator, List

from mc import ivworlds, nondet, refmodel

ID = "C07"
TECHNIQUE = ("bounded-exhaustive enumeration of device-activity multisets on an integer grid x exhaustive "
             "tie-order deviations of unstable sorts, real get_comm_comp_overlap vs unit-cell reference model")
RULE = ("every multiset (multiplicity<=2, up to time translation: min start = 0) of <=K activities "
        "(span within grid G_T incl. zero length) x type {computation, communication} (+ distractor slice with "
        "memcpy/sync activities that must be ignored; + file slice loading each small world from its own "
        "1- and 2-rank files, also stretched beyond 2**31 us and with computation on stream 0; + session slice: the same TraceAnalysis object ran a critical-path analysis of one launch window | decode_symbol_ids | the other summary getters before) x N1 tie orders (stable, all-reversed, every single tie group permuted); "
        "non-trivial = communication time > 0 and both kinds present")
ASSUMPTIONS = [
    "pandas/numpy primitives are trusted; an unstable sort may return any order of rows with equal keys",
    "kernel classes are fixed by name: nccl*Kernel = communication, Memcpy/Memset = memory, *Sync = other",
    "worlds whose communication kernels all have zero length are skipped (ratio undefined)",
]


def bounds(tier: str) -> Dict[str, Any]:
    if tier == "quick":
        return dict(T=4, K=4, distract_K=2, file_K=2, tie_max_dev=1, chunk=64)
    return dict(T=5, K=4, distract_K=3, file_K=3, tie_max_dev=2, chunk=64)


PRIOR_KINDS = ("cp", "decode", "getters")


def worlds(tier: str, stats: Dict[str, Any]) -> Iterator[Any]:
    b = bounds(tier)
    base = [(s, e, ty, 0) for (s, e) in ivworlds.spans(b["T"]) for ty in "PM"]
    for ms in ivworlds.multisets(base, b["K"]):
        stats["transitions"] += 1
        if min(i[0] for i in ms) != 0 or not any(i[2] == "M" for i in ms):
            continue
        yield dict(mode="menu", items=[list(i) for i in ms])
    # distractors: memory / other activities on top of every small world
    small = [(s, e, ty, 0) for (s, e) in ivworlds.spans(b["T"]) for ty in "PM"]
    dis = [(0, b["T"], "Y", 0, 0), (0, b["T"], "O", 0, 0), (1, 2, "Y", 0, 0)]
    for ms in ivworlds.multisets(small, b["distract_K"]):
        if not any(i[2] == "M" for i in ms):
            continue
        for d in dis:
            stats["transitions"] += 1
            yield dict(mode="menu", items=[list(i) for i in ms] + [list(d)])
    # file slice: own files, 1 and 2 ranks (rank 1 = the mirrored world)
    for ms in ivworlds.multisets(small, b["file_K"]):
        if min(i[0] for i in ms) != 0 or not any(i[2] == "M" for i in ms):
            continue
        stats["transitions"] += 2
        yield dict(mode="file", ranks=[[list(i) for i in ms]])
        T = b["T"]
        mir = [[T - i[1], T - i[0], i[2], i[3], i[4]] for i in ms]
        yield dict(mode="file", ranks=[[list(i) for i in ms], mir])
        if len(ms) == 2:
            stats["transitions"] += 1
            yield dict(mode="file", ranks=[[list(i) for i in ms]], no_corr=True)
            # a very long trace (times beyond 2**31 us) and computation on the legacy default stream 0
            if all(i[1] > i[0] for i in ms):
                stats["transitions"] += 2
                yield dict(mode="file", ranks=[[list(i) for i in ms]], scale=2 ** 29 + 3)
                yield dict(mode="file", ranks=[[list(i) for i in ms]], streams={"P": 0})
            # session slice: the same object was used for other analyses before (launch calls issued one after the other)
            if all(i[1] > i[0] for i in ms):
                for pk in PRIOR_KINDS:
                    stats["transitions"] += 1
                    yield dict(mode="file", ranks=[[list(i) for i in ms]], prior=pk)
    for seq in ivworlds.history_sequences():
        stats["transitions"] += len(seq)
        yield dict(mode="history", seq=seq)


_MENU = None


def worker_init() -> None:
    nondet.install()


def _menu(T: int):
    global _MENU
    if _MENU is None or _MENU[0] != T:
        _MENU = (T, ivworlds.Menu(T, "PMYO", 1, 2))
    return _MENU[1]


def expected(items) -> Any:
    comm = refmodel.cells((i[0], i[1]) for i in items if i[2] == "M")
    comp = refmodel.cells((i[0], i[1]) for i in items if i[2] == "P")
    if not comm:
        return None
    return 100.0 * len(comm & comp) / len(comm)


def check(world) -> Dict[str, Any]:
    if world["mode"] == "history":
        viol, execs = [], 0
        for k, m in enumerate(world["seq"]):
            fam = [list(i) for i in ivworlds.HISTORY_FAMILY[m]]
            if not any(i[2] == "M" and i[1] > i[0] for i in fam):
                fam = fam + [[0, 3, "M", 1, 0]]
            r = check(dict(mode="file", ranks=[fam]))
            execs += r["execs"]
            viol += [(f"history/{s}", dict(d, position_in_history=k, history=world["seq"])) for s, d in r["viol"]]
        return dict(viol=_dedupe(viol), nontrivial=True, outcome=("history", tuple(world["seq"])), execs=execs, extra_transitions=execs - 1)
    viol: List[Any] = []
    execs = 0
    if world["mode"] == "menu":
        items = world["items"]
        T = max(max(i[1] for i in items), 4)
        exp = {0: expected(items)}
        if exp[0] is None:
            return dict(viol=[], nontrivial=False, outcome="undef", execs=0)
        m = _menu(5 if T > 4 else 4)
        tas = [m.sub({0: [items[k] for k in o]}) for o in ivworlds.row_orders(len(items))]
        b_dev = (2 if T > 4 else 1) if len(items) <= 3 else 0
    else:
        from mc import htaenv

        ranks = {r: its for r, its in enumerate(world["ranks"])}
        exp = {r: expected(its) for r, its in ranks.items()}
        if any(v is None for v in exp.values()):
            return dict(viol=[], nontrivial=False, outcome="undef", execs=0)
        tas = [htaenv.load_world({r: ivworlds.events_for(its, no_corr=bool(world.get("no_corr")), spread=bool(world.get("prior")),
                                                         scale=world.get("scale", 1), streams=world.get("streams"))
                                  for r, its in ranks.items()})[0]]
        b_dev = 1
        if world.get("prior"):
            htaenv.prior_session(tas[0], world["prior"])

    def run():
        df = ta.get_comm_comp_overlap(visualize=False)
        return {int(r): float(v) for r, v in zip(df["rank"], df["comp_comm_overlap_pctg"])}

    outcome = None
    def all_runs():
        nonlocal ta
        for k, ta in enumerate(tas):
            for plan, res in nondet.explore_ties(run, max_dev=b_dev if k == 0 else 0, with_reverse=(k == 0), cap=16):
                yield (plan if k == 0 else ("row-order", plan)), res

    ta = tas[0]
    for plan, res in all_runs():
        execs += 1
        for r, e in exp.items():
            got = res.get(r)
            if got is None or not (abs(got - e) <= 0.005 + 1e-9) or not (0 <= got <= 100):
                viol.append((f"overlap-mismatch/{'stable' if plan == 'stable' else ('row-order' if isinstance(plan, tuple) else 'tie-order')}",
                             dict(plan=plan, rank=r, expected=e, got=got)))
        if outcome is None:
            outcome = tuple(sorted(res.items()))
    nontrivial = all(0 < e for e in exp.values()) or any(0 < e < 100 for e in exp.values())
    return dict(viol=_dedupe(viol), nontrivial=bool(nontrivial), outcome=outcome, execs=execs,
                extra_transitions=execs - 1)


def _dedupe(v):
    seen, out = set(), []
    for s, d in v:
        if s not in seen:
            seen.add(s)
            out.append((s, d))
    return out
