"""C12 - iteration numbers follow profiler steps; loading trims only the trailing step."""
from __future__ import annotations

import itertools
import os
import re
from typing import Any, Dict, Iterator, List

from mc import kineto, refmodel

ID = "C12"
TECHNIQUE = ("bounded-exhaustive enumeration of profiler-step layouts x event placements at every position class "
             "x include_last_profiler_step, real load_traces vs reference membership/iteration rules")
RULE = ("every layout of 0..3 disjoint profiler steps with even endpoints in [0,8] (touching or with gaps, "
        "non-contiguous numbering) x every set of <=D units placed at every integer position 0..9 (unit = host "
        "op | launch call with its kernel starting 1 or 3 later | kernel without launch call | event-synchronize "
        "call with its Event Sync record on stream -1 | host event whose name merely contains or starts with 'ProfilerStep' | "
        "zero-duration op | op on a second host thread | op or launch call on a second host thread running across a step boundary) x include_last_profiler_step in {False,True} x file order "
        "{as generated, reversed}; 2-rank slice with a skewed second rank; history slice: the same directory path held a different trace (no steps | other names | one step) that was loaded earlier in the same process. non-trivial = at least two steps and "
        "at least one event on each side of the cut-off, or an event on a step boundary")
ASSUMPTIONS = [
    "well-formed trace; all ranks carry the same step numbering",
    "Event Sync / Context Sync records on stream -1 may take their iteration by either rule (host rule or link)",
    "GPU-side annotations without a correlation id are not generated (neither host event nor linked activity)",
]
E0 = 1_700_000_000_000_000
STEP_NUMS = [5, 7, 12]


def bounds(tier: str) -> Dict[str, Any]:
    if tier == "quick":
        return dict(D_full=1, D_pair_units="op,launch1", positions=10, chunk=24)
    return dict(D_full=2, D_pair_units="all", positions=10, chunk=24)


def layouts() -> List[List[List[int]]]:
    pts = [0, 2, 4, 6, 8]
    ivs = [(a, b) for a in pts for b in pts if a < b]
    out: List[List[List[int]]] = [[]]
    for n in (1, 2, 3):
        for combo in itertools.combinations(ivs, n):
            if all(combo[i][1] <= combo[i + 1][0] for i in range(n - 1)):
                out.append([list(c) for c in combo])
    return out


def units(kind: str) -> List[List[Any]]:
    P = range(10)
    u = []
    if kind in ("all", "op,launch1"):
        u += [["op", p] for p in P] + [["launch", p, 1] for p in P]
    if kind == "all":
        u += [["launch", p, 3] for p in P] + [["orphan", p] for p in P] + [["esync", p] for p in P]
        # host events whose names merely resemble a profiler step, a zero-duration op, an op on a second thread
        u += [["named", p, nm] for p in (1, 5, 9) for nm in ("my_ProfilerStep_hook", "ProfilerStepHook")]
        u += [["op0", p] for p in (0, 2, 4, 8)] + [["op_t2", p] for p in (1, 4, 9)]
        # events of a second host thread that run across a step boundary (impossible on the step's own thread)
        u += [["op_t2w", p] for p in (1, 3, 5, 7)] + [["launch_t2w", p] for p in (1, 3, 5, 7)]
    return u


def build(layout, us, skew=0, root_in_step=False) -> List[Dict[str, Any]]:
    t0 = E0 + skew
    # event 0 (the leading host operator) normally precedes every step; root_in_step puts it at the start of the first step
    evs = [kineto.cpu_op("aten::root", (t0 + layout[0][0]) if (root_in_step and layout) else (t0 - 2), 1, ext=0)]
    for k, (a, b) in enumerate(layout):
        evs.append(kineto.step(STEP_NUMS[k], t0 + a, b - a))
    corr = 20
    for u in us:
        p = u[1]
        if u[0] == "op":
            evs.append(kineto.cpu_op("aten::mul", t0 + p, 1, ext=corr))
        elif u[0] == "named":
            evs.append(kineto.cpu_op(u[2], t0 + p, 1, ext=corr))
        elif u[0] == "op0":
            evs.append(kineto.cpu_op("aten::zero", t0 + p, 0, ext=corr))
        elif u[0] == "op_t2":
            evs.append(kineto.cpu_op("aten::other_thread", t0 + p, 1, ext=corr, tid=101))
        elif u[0] == "op_t2w":
            evs.append(kineto.cpu_op("aten::other_thread_wide", t0 + p, 2, ext=corr, tid=101))
        elif u[0] == "launch_t2w":
            evs.append(kineto.runtime("cudaLaunchKernel", t0 + p, 2, corr, tid=101))
            evs.append(kineto.kernel("kern_b", t0 + p + 2, 1, 7, corr))
        elif u[0] == "launch":
            evs.append(kineto.runtime("cudaLaunchKernel", t0 + p, 1, corr))
            evs.append(kineto.kernel("kern_a", t0 + p + u[2], 2, 7, corr))
        elif u[0] == "orphan":
            evs.append(kineto.kernel("kern_orphan", t0 + p, 2, 9, corr))
        elif u[0] == "esync":
            evs.append(kineto.runtime("cudaEventSynchronize", t0 + p, 1, corr))
            evs.append(kineto.cuda_sync("Event Sync", t0 + p, 1, -1, corr))
        corr += 1
    return evs


PRIORS = {
    "no-steps": ([], [["named", 1, "prior_only_a"], ["named", 3, "prior_only_b"], ["launch", 5, 1]]),
    "other-names": ([[0, 4], [4, 8]], [["named", 1, "prior_only_a"], ["named", 2, "prior_only_c"], ["op0", 4]]),
    "one-step": ([[2, 6]], [["named", 1, "prior_only_b"], ["orphan", 3]]),
}


def worlds(tier: str, stats: Dict[str, Any]) -> Iterator[Any]:
    b = bounds(tier)
    L = layouts()
    allu = units("all")
    pair_u = units(b["D_pair_units"])
    for lay in L:
        sets: List[List[Any]] = [[]]
        sets += [[u] for u in allu]
        if b["D_full"] >= 2:
            sets += [list(c) for c in itertools.combinations_with_replacement(allu, 2)]
        else:
            sets += [list(c) for c in itertools.combinations_with_replacement(pair_u, 2)]
        for us in sets:
            for inc in (False, True):
                stats["transitions"] += 1
                evs = build(lay, us)
                yield dict(layout=lay, units=us, include_last=inc, ranks={"0": evs})
                if len(us) == 1 and lay and us[0][0] in ("orphan", "launch", "esync"):
                    stats["transitions"] += 1
                    yield dict(layout=lay, units=us, include_last=inc, root_in_step=True, ranks={"0": build(lay, us, root_in_step=True)})
                if len(us) == 1:
                    stats["transitions"] += 2
                    yield dict(layout=lay, units=us, include_last=inc, ranks={"0": [evs[0]] + evs[1:][::-1]})
                    yield dict(layout=lay, units=us, include_last=inc,
                               ranks={"0": evs, "1": build(lay, us, skew=1)})
                if len(us) == 1 and len(lay) >= 2 and us[0][0] in ("op", "launch"):
                    # history: another trace was loaded earlier in this process from the very same directory path
                    for pk, prior in PRIORS.items():
                        stats["transitions"] += 1
                        yield dict(layout=lay, units=us, include_last=inc, prior_kind=pk,
                                   prior={"0": build(*prior)}, ranks={"0": evs})


STEP_RE = re.compile(r"ProfilerStep\s*#\s*(\d+)")


def expected(ranks_events, include_last: bool):
    nsteps = len({e["name"] for evs in ranks_events.values() for e in evs if STEP_RE.match(e.get("name", ""))})
    out = {}
    for r, evs in ranks_events.items():
        rows = refmodel.parse_rows(evs)
        lk = refmodel.links(rows)
        steps = [(x["ts"], x["ts"] + x["dur"], int(STEP_RE.match(x["name"]).group(1))) for x in rows
                 if STEP_RE.match(x["name"])]
        it_host = {}
        for x in rows:
            it = -1
            for (a, b_, k) in steps:
                if a <= x["ts"] < b_:
                    it = k
            it_host[x["id"]] = it
        iters: Dict[int, Any] = {}
        for x in rows:
            if x["stream"] > 0:
                iters[x["id"]] = {it_host[lk[x["id"]]] if lk[x["id"]] > 0 else -1}
            elif refmodel.is_device_side(x):
                iters[x["id"]] = {it_host[x["id"]], it_host[lk[x["id"]]] if lk[x["id"]] > 0 else -1}
            else:
                iters[x["id"]] = {it_host[x["id"]]}
        if nsteps >= 2 and steps:
            last_start = max(s[0] for s in steps)
            last_end = max(s[1] for s in steps)
            host_kept = {x["id"] for x in rows if not refmodel.is_device_side(x)
                         and (x["ts"] <= last_end if include_last else x["ts"] < last_start)}
            kept = set(host_kept) | {x["id"] for x in rows if refmodel.is_device_side(x) and lk[x["id"]] > 0 and lk[x["id"]] in host_kept}
        else:
            kept = {x["id"] for x in rows}
        out[int(r)] = dict(kept=kept, iters=iters, rows=rows, steps=steps)
    return out, nsteps


def check(world) -> Dict[str, Any]:
    from hta.common.trace import Trace
    from hta.analyzers.straggler_analysis import StragglerAnalysis
    from mc import htaenv

    viol: List[Any] = []
    ranks = {int(r): evs for r, evs in world["ranks"].items()}
    inc = world["include_last"]
    exp, nsteps = expected(ranks, inc)
    sc = htaenv.scratch()
    d = sc.fresh()
    try:
        if world.get("prior"):
            paths = kineto.write_world(d, {int(r): evs for r, evs in world["prior"].items()}, "json")
            t0 = Trace(trace_dir=d)
            t0.load_traces(include_last_profiler_step=inc, use_multiprocessing=False)
            for p_ in paths.values():
                os.remove(p_)
        kineto.write_world(d, ranks, "json")
        t = Trace(trace_dir=d)
        t.load_traces(include_last_profiler_step=inc, use_multiprocessing=False)
    finally:
        sc.drop(d)
    tag = ("incl-last" if inc else "excl-last") + ("/after-prior-load-from-same-path" if world.get("prior") else "")
    for r, e in exp.items():
        df = t.get_trace(r)
        ids = [int(v) for v in df.index]
        if len(set(ids)) != len(ids):
            viol.append((f"{tag}/duplicated-rows", dict(rank=r, ids=ids)))
        got = set(ids)
        if got != e["kept"]:
            extra, missing = got - e["kept"], e["kept"] - got
            byid = {x["id"]: x for x in e["rows"]}
            kind = "kept-but-should-be-dropped" if extra else "dropped-but-should-be-kept"
            side = "device" if refmodel.is_device_side(byid[next(iter(extra or missing))]) else "host"
            viol.append((f"{tag}/{kind}/{side}/steps={min(nsteps, 2)}",
                         dict(rank=r, extra=sorted(extra), missing=sorted(missing), layout=world["layout"], units=world["units"])))
            continue
        for i in ids:
            g = int(df.loc[i, "iteration"])
            if g not in e["iters"][i]:
                byid = {x["id"]: x for x in e["rows"]}
                side = "device" if byid[i]["stream"] > 0 else "host"
                viol.append((f"iteration-wrong/{side}", dict(rank=r, id=i, name=byid[i]["name"], got=g,
                                                              expected=sorted(e["iters"][i]), layout=world["layout"], units=world["units"])))
        gi = t.get_iterations(r)
        possible_min = sorted({min(e["iters"][i]) for i in ids} - {-1})
        possible_all = set().union(*[e["iters"][i] for i in ids]) - {-1} if ids else set()
        if not (set(gi) <= possible_all and all(isinstance(x, (int,)) or hasattr(x, "__int__") for x in gi)
                and list(gi) == sorted(gi)) or (all(len(e["iters"][i]) == 1 for i in ids) and [int(x) for x in gi] != possible_min):
            viol.append(("get_iterations-mismatch", dict(rank=r, got=[int(x) for x in gi], expected=possible_min)))
    want_steps = sorted({k for r, e in exp.items() for x in e["rows"] if x["id"] in e["kept"]
                         for m in [STEP_RE.match(x["name"])] if m for k in [int(m.group(1))]})
    try:
        ps = [int(x) for x in StragglerAnalysis.get_profiler_steps(t)]
    except Exception as ex:  # no step at all: the helper is allowed to have nothing to say
        ps = None if not want_steps else ("error", repr(ex))
    if ps is not None and ps != want_steps:
        viol.append(("get_profiler_steps-mismatch", dict(got=ps, expected=want_steps)))
    e0 = exp[min(exp)]
    nontrivial = nsteps >= 2 and 0 < len(e0["kept"]) - 1 - 0 and len(e0["kept"]) < len(e0["rows"])
    outcome = (nsteps, tuple(sorted(e0["kept"])), tuple(sorted((i, tuple(sorted(v))) for i, v in e0["iters"].items())))
    return dict(viol=_dedupe(viol), nontrivial=nontrivial, outcome=outcome, execs=1)


def _dedupe(v):
    seen, out = set(), []
    for s, d in v:
        if s not in seen:
            seen.add(s)
            out.append((s, d))
    return out
