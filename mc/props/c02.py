"""C02 - correlation links pair each launch call with its device activity, mutually."""
from __future__ import annotations

import itertools
from typing import Any, Dict, Iterator, List

from mc import kineto, refmodel

ID = "C02"
TECHNIQUE = ("bounded-exhaustive enumeration of correlation-id patterns (present/missing partners, sync records on "
             "stream -1, every file order), real parse_trace_file / load_traces vs reference link relation")
RULE = ("every set of entries after the leading host operator with, per correlation id c in C, at most one host "
        "call in {launch, non-launch runtime call} and at most one device record in {kernel, memcpy, stream sync "
        "on a stream, Event Sync / Context Sync on stream -1}, optionally a host op without correlation and a GPU "
        "annotation without correlation or an Event/Context Sync record without correlation id; x every file order (all permutations up to P entries, else identity, "
        "reversal, rotations) and x padding with metadata entries so that event ids exceed 127 / 255 / 32767 while "
        "correlation ids stay small; every pattern also with the device records starting before their host calls; plus a slice with correlated host annotations whose names merely start with 'Event Sync' / "
        "'Context Sync' (paired with a GPU annotation or a kernel); plus a trimmed slice (2-3 profiler steps, launches at every position, so that the "
        "loader drops events: links inside the loaded frame must stay mutual and point to present rows); checked after parse_trace_file and after load_traces. non-trivial = contains a "
        "linked pair and a missing partner or a stream -1 sync record")
ASSUMPTIONS = [
    "well-formed trace: first entry is a host operator; a correlation id occurs at most once per side",
    "fewer than two profiler steps (no trimming)",
]
E0 = 1_700_000_000_000_000


def bounds(tier: str) -> Dict[str, Any]:
    if tier == "quick":
        return dict(corr_sets=[[0, 3]], P=4, pads=[130], pads_few=[], chunk=24)
    return dict(corr_sets=[[3, 4], [0, 3], [5, 2**31 + 7]], P=5, pads=[130, 300], pads_few=[33000], chunk=24)


HOST = [None, "L", "N"]
DEV = [None, "K", "Y", "S", "E", "C"]


def build(code: str, c: int, slot: int) -> Dict[str, Any]:
    ts = E0 + 2 + 4 * slot
    if code == "L":
        return kineto.runtime("cudaLaunchKernel", ts, 2, c)
    if code == "N":
        return kineto.runtime("cudaStreamSynchronize", ts, 2, c)
    if code == "H":
        return kineto.cpu_op("aten::mul", ts, 2, ext=slot)
    if code == "K":
        return kineto.kernel("kern_a", ts + 1, 3, 7, c)
    if code == "Y":
        return kineto.memcpy("Memcpy DtoH (Device -> Pageable)", ts + 1, 3, 9, c, bw=0.5)
    if code == "S":
        return kineto.cuda_sync("Stream Sync", ts + 1, 3, 7, c)
    if code == "E":
        return kineto.cuda_sync("Event Sync", ts + 1, 3, -1, c)
    if code == "C":
        return kineto.cuda_sync("Context Sync", ts + 1, 3, -1, c)
    if code == "A":
        return kineto.gpu_annotation("gpu_anno", ts + 1, 3, 7)
    if code == "U":   # a device-level sync record that carries no correlation id
        e = kineto.cuda_sync("Context Sync" if slot % 2 else "Event Sync", ts + 1, 3, -1, 0)
        del e["args"]["correlation"]
        return e
    if code in LOOKALIKE:   # host annotation whose name merely starts with the name of a device-level sync record
        e = kineto.annotation(LOOKALIKE[code], ts, 2)
        e["args"] = {"External id": c, "correlation": c}
        return e
    if code == "Q":   # the GPU annotation paired (by correlation id) with a host annotation
        e = kineto.gpu_annotation("Context Sync barrier", ts + 1, 3, 7)
        e["args"]["correlation"] = c
        return e
    raise ValueError(code)


LOOKALIKE = {"P1": "Context Sync barrier", "P2": "Event Synchronize wait"}


def lookalike_worlds(b, stats):
    """correlated host events named like (but not exactly as) Event Sync / Context Sync records"""
    c1, c2 = 3, 4
    for hp, dev, second, u in itertools.product(sorted(LOOKALIKE), ("Q", "K", None), (None, "LK", "NE"), (0, 1)):
        ents = [build(hp, c1, 0)]
        if dev:
            ents.append(build(dev, c1, 1))
        if second:
            ents += [build(second[0], c2, 2), build(second[1], c2, 3)]
        if u:
            ents.append(build("U", -1, 4))
        sig = f"lookalike:{hp}{dev or '-'}{second or '--'}{'U' if u else ''}"
        for o in orders(len(ents), b["P"]):
            stats["transitions"] += 1
            yield dict(pattern=sig, corr=[c1, c2], order=o, pad=0,
                       events=[kineto.cpu_op("aten::root", E0, 100, ext=0)] + [ents[k] for k in o])


def orders(n: int, P: int) -> List[List[int]]:
    ident = list(range(n))
    if n <= P:
        return [list(p) for p in itertools.permutations(ident)]
    out = [ident, ident[::-1]] + [ident[k:] + ident[:k] for k in range(1, n)]
    return out


def worlds(tier: str, stats: Dict[str, Any]) -> Iterator[Any]:
    b = bounds(tier)
    yield from trimmed_worlds(stats)
    yield from lookalike_worlds(b, stats)
    for cs in b["corr_sets"]:
        c1, c2 = cs
        for h1, h2, d1, d2, hh, aa in itertools.product(HOST, HOST, DEV, DEV, (0, 1), (0, 1, 2)):
            if aa == 2 and hh:
                continue
            ents = []
            slot = 0
            for code, c in ((h1, c1), (d1, c1), (h2, c2), (d2, c2), ("H" if hh else None, -1), ({1: "A", 2: "U"}.get(aa), -1)):
                if code:
                    ents.append(build(code, c, slot))
                    slot += 1
            if not ents:
                continue
            sig = "".join(x or "-" for x in (h1, d1, h2, d2)) + ("H" if hh else "") + {0: "", 1: "A", 2: "U"}[aa]
            for o in orders(len(ents), b["P"]):
                stats["transitions"] += 1
                evs = [kineto.cpu_op("aten::root", E0, 100, ext=0)] + [ents[k] for k in o]
                yield dict(pattern=sig, corr=cs, order=o, pad=0, events=evs)
            # clock skew: every device record starts before its host call (the statement puts no condition on times)
            if any(x in ("K", "Y", "S", "E", "C") for x in (d1, d2)) and (h1 or h2):
                stats["transitions"] += 1
                early = [dict(e, ts=e["ts"] - 8) if e.get("pid") == kineto.DEV_PID else e for e in ents]
                yield dict(pattern=sig + "/device-early", corr=cs, order=list(range(len(ents))), pad=0,
                           events=[kineto.cpu_op("aten::root", E0, 100, ext=0)] + early)
            # event ids far larger than the correlation ids (ids are file positions): pad with metadata entries
            for pad in b["pads"] + (b["pads_few"] if (h1 == "L" and d1 == "K" and not hh and not aa) else []):
                stats["transitions"] += 1
                yield dict(pattern=sig, corr=cs, order=list(range(len(ents))), pad=pad,
                           events=[kineto.cpu_op("aten::root", E0, 100, ext=0)] + ents)


def trimmed_worlds(stats):
    from mc.props import c12

    lays = [l for l in c12.layouts() if len(l) >= 2][::2]
    for lay in lays:
        for p in range(10):
            for delta in (1, 3):
                stats["transitions"] += 1
                yield dict(mode="trimmed", layout=lay, units=[["op", 0], ["launch", p, delta]])
                if p in (1, 5, 9):
                    stats["transitions"] += 1
                    yield dict(mode="trimmed", layout=lay, units=[["op", 9], ["launch", p, delta], ["orphan", 3], ["esync", p]])


def check_trimmed(world) -> Dict[str, Any]:
    """links inside a frame from which the loader trimmed the trailing profiler step: every positive link must point to a
    row that is present, on the other side, with the same correlation id, and point back"""
    from hta.common.trace import Trace
    from mc import htaenv
    from mc.props import c12

    viol: List[Any] = []
    evs = c12.build(world["layout"], world["units"])
    rows = {r["id"]: r for r in refmodel.parse_rows(evs)}
    for inc in (False, True):
        sc = htaenv.scratch()
        d = sc.fresh()
        try:
            kineto.write_world(d, {0: evs}, "json")
            t = Trace(trace_dir=d)
            t.load_traces(include_last_profiler_step=inc, use_multiprocessing=False)
            df = t.get_trace(0)
        finally:
            sc.drop(d)
        got = {int(i): int(v) for i, v in zip(df.index, df["index_correlation"])}
        tag = f"trimmed/include_last={inc}"
        for i, g in got.items():
            r = rows[i]
            if r["corr"] == -1:
                if g != -1:
                    viol.append((f"{tag}/sentinel--1-expected", dict(id=i, got=g, world=world)))
            elif g > 0:
                if g not in got:
                    viol.append((f"{tag}/link-to-row-absent-from-loaded-trace", dict(id=i, got=g, world=world)))
                elif got[g] != i:
                    viol.append((f"{tag}/link-not-mutual", dict(id=i, got=g, back=got[g], world=world)))
                elif rows[g]["corr"] != r["corr"] or refmodel.is_device_side(rows[g]) == refmodel.is_device_side(r):
                    viol.append((f"{tag}/linked-to-wrong-event", dict(id=i, got=g, world=world)))
            elif g == 0:
                partner = [q for q in got if q != i and rows[q]["corr"] == r["corr"] and refmodel.is_device_side(rows[q]) != refmodel.is_device_side(r)]
                if partner:
                    viol.append((f"{tag}/sentinel-0-although-partner-present", dict(id=i, partner=partner, world=world)))
    return dict(viol=_dedupe(viol), nontrivial=len(world["layout"]) >= 2, outcome=("trimmed", len(world["layout"]), str(world["units"])), execs=2)


def check(world) -> Dict[str, Any]:
    from hta.common.trace import Trace, parse_trace_file
    from mc import htaenv

    if world.get("mode") == "trimmed":
        return check_trimmed(world)
    viol: List[Any] = []
    evs = world["events"]
    if world.get("pad"):
        evs = evs[:1] + [kineto.meta_event(E0 + k) for k in range(world["pad"])] + evs[1:]
    rows = refmodel.parse_rows(evs)
    exp = refmodel.links(rows)
    assert None not in exp.values()
    sc = htaenv.scratch()
    d = sc.fresh()
    try:
        paths = kineto.write_world(d, {0: evs}, "json")
        _, df, _ = parse_trace_file(paths[0])
        got_p = {int(r["index"]): int(r["index_correlation"]) for _, r in df.iterrows()}
        t = Trace(trace_dir=d)
        t.load_traces(use_multiprocessing=False)
        df2 = t.get_trace(0)
        got_l = {int(i): int(v) for i, v in zip(df2.index, df2["index_correlation"])}
    finally:
        sc.drop(d)
    by = {r["id"]: r for r in rows}
    for tag, got in (("parse", got_p), ("load", got_l)):
        if set(got) != set(exp):
            viol.append((f"{tag}/row-set", dict(got=sorted(got), expected=sorted(exp))))
            continue
        for i, want in exp.items():
            g = got[i]
            if g == want:
                continue
            r = by[i]
            if g > 0 and g in by:
                q = by[g]
                if q["corr"] != r["corr"]:
                    kind = "linked-to-different-correlation"
                elif refmodel.is_device_side(q) == refmodel.is_device_side(r):
                    kind = "linked-to-own-side"
                else:
                    kind = "wrong-partner"
            elif want > 0:
                kind = "link-missing" if got.get(want) != i else "link-not-mutual"
            else:
                kind = f"sentinel-{want}-expected"
            viol.append((f"{tag}/{kind}", dict(event=r["name"], id=i, corr=r["corr"], got=g, expected=want,
                                               all_got=got, all_expected=exp)))
    vals = set(exp.values())
    nontrivial = any(v > 0 for v in vals) and (0 in vals or any(r["stream"] == -1 and refmodel.is_device_side(r) for r in rows))
    return dict(viol=_dedupe(viol), nontrivial=nontrivial, outcome=(world["pattern"],), execs=2)


def _dedupe(v):
    seen, out = set(), []
    for s, d in v:
        if s not in seen:
            seen.add(s)
            out.append((s, d))
    return out
