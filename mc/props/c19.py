"""C19 - a saved critical-path graph restores to an identical graph."""
from __future__ import annotations

import itertools
import os
import shutil
from typing import Any, Dict, Iterator, List

from mc import cpworlds

ID = "C19"
TECHNIQUE = ("explicit-state exploration of operation histories {save->restore, recompute path, breakdown} on every "
             "graph built from the enumerated stream-model behaviours; every reached state must equal the initial "
             "canonical state (nodes, edges, weights, types, attributions, maps, path, breakdown)")
RULE = ("graphs: the C08 worlds (every sixth program of the tier's program set; whole-trace window and, for step-wrapped worlds, the ProfilerStep "
        "(0,1) window) x histories: quick = the 9 sequences (a, b, save->restore) covering every ordered pair of "
        "operations, thorough = all 27 sequences of length 3; the canonical state is compared after every operation. "
        "non-trivial = the graph has at least one attributed edge and a path of >= 3 edges")
ASSUMPTIONS = [
    "identity is judged on the canonical form: node list, edge list with graph weights and edge objects, edge->event "
    "attributions, start/end node maps, critical path nodes/events/edges and the breakdown rows",
    "restore_cpgraph unpacks under /tmp/<save path>; the harness removes that directory after each restore",
]
OPS = ["SR", "P", "B"]


def bounds(tier: str) -> Dict[str, Any]:
    return dict(histories=9 if tier == "quick" else 27, chunk=4)


def worlds(tier: str, stats: Dict[str, Any]) -> Iterator[Any]:
    for w in cpworlds.worlds(tier, stats, subset="smaller"):
        w["tier"] = tier
        yield w
        if any(a[0] == "op" for a in w["program"]) and not any(w.get(k) for k in ("second_thread", "second_process", "as_rank1", "file_order")):
            # a graph with an edge of weight -1 clamped to 0 (child ending one unit after its parent): still a
            # successful analysis, so it must survive save/restore like any other
            stats["transitions"] += 1
            yield dict(w, overhang=True)


def breakdown_rows(g):
    import contextlib, io

    bd = g.get_critical_path_breakdown()
    if bd is None:
        return None
    rows = []
    for _, r in bd.iterrows():
        ev = r["event_idx"]
        rows.append((-1 if ev != ev or ev is None else int(ev), int(r["duration"]), str(r["type"]), str(r["bound_by"]),
                     None if r["s_name"] != r["s_name"] else str(r["s_name"])))
    return sorted(rows, key=str)


def canon(g, with_breakdown=True):
    nodes = [(int(n.idx), int(n.ev_idx), int(n.ts), bool(n.is_start), bool(n.is_blocking)) for n in g.node_list]
    edges = sorted((int(u), int(v), float(g.edges[u, v]["weight"]), int(g.edges[u, v]["object"].begin), int(g.edges[u, v]["object"].end),
                    float(g.edges[u, v]["object"].weight), g.edges[u, v]["object"].type.value) for u, v in g.edges)
    st = dict(
        graph_nodes=sorted(int(n) for n in g.nodes),
        nodes=nodes, edges=edges,
        attributions=sorted((int(u), int(v), int(e)) for (u, v), e in g.edge_to_event_map.items()),
        start_map=sorted((int(k), int(v)) for k, v in g.event_to_start_node_map.items()),
        end_map=sorted((int(k), int(v)) for k, v in g.event_to_end_node_map.items()),
        path=[int(n) for n in g.critical_path_nodes],
        path_events=sorted(int(x) for x in g.critical_path_events_set),
        path_edges=sorted((int(e.begin), int(e.end), float(e.weight), e.type.value) for e in g.critical_path_edges_set),
    )
    if with_breakdown:
        st["breakdown"] = breakdown_rows(g)
    return st


def save_restore(g, ta, base):
    from hta.analyzers.critical_path_analysis import restore_cpgraph

    n = len(os.listdir(base))
    out = os.path.join(base, f"save{n}")
    cwd = os.getcwd()
    rel = (n % 2 == 1)          # every other save uses a path relative to the working directory
    try:
        if rel:
            os.chdir(base)
            # restore_cpgraph unpacks under /tmp/<path as given>: a relative name must be unique across worker processes
            out = f"save_{os.getpid()}_{n}"
            z = g.save(out)
        else:
            z = g.save(out)
        r = restore_cpgraph(z, ta.t, 0)
    finally:
        os.chdir(cwd)
        shutil.rmtree(os.path.join("/tmp", out.lstrip("/")), ignore_errors=True)
        if rel:
            shutil.rmtree(os.path.join("/tmp", out), ignore_errors=True)
    return r


def check(world) -> Dict[str, Any]:
    from mc import htaenv

    viol: List[Any] = []
    evs = cpworlds.build(world)
    ta, d = htaenv.load_world({0: evs}, keep=True)
    nh = bounds(world.get("tier", "quick"))["histories"]
    hist_list = [list(h) for h in itertools.product(OPS, repeat=3)] if nh == 27 else [[a, b_, "SR"] for a in OPS for b_ in OPS]
    wins = [("", None)] + ([("ProfilerStep", (0, 1))] if world["steps"] else [])
    execs = 0
    nontrivial = False
    outcome = []
    try:
        for (ann, inst) in wins:
            first = None
            for h in hist_list:
                res = cpworlds.analyse(ta, ann, inst, world["flag"])
                if res is None or not res[1]:
                    break
                g = res[0]
                s0 = canon(g)
                if first is None:
                    first = s0
                    nontrivial |= len(s0["attributions"]) > 0 and len(s0["path"]) >= 4
                    outcome.append((len(s0["nodes"]), len(s0["edges"]), len(s0["path"])))
                w0 = sum(x[2] for x in s0["path_edges"])
                cur = g
                for k, op in enumerate(h):
                    execs += 1
                    ctx = dict(annotation=ann, instance=inst, history=h[: k + 1], program=world["program"], profile=world["profile"],
                               file_order=world.get("file_order"))
                    try:
                        if op == "SR":
                            cur = save_restore(cur, ta, d)
                        elif op == "P":
                            okp = cur.critical_path()
                            if not okp:
                                viol.append(("recompute-path-fails", ctx))
                        else:
                            breakdown_rows(cur)
                    except Exception as ex:
                        import traceback

                        from mc.engine import _where

                        viol.append((f"operation-raises/{op}/{type(ex).__name__}/{_where(traceback.format_exc())}", dict(ctx, error=repr(ex)[:300])))
                        break
                    try:
                        s1 = canon(cur)
                    except Exception as ex:
                        viol.append((f"state-unreadable-after/{op}/{type(ex).__name__}", dict(ctx, error=repr(ex)[:300])))
                        break
                    if s1 != s0:
                        diff = sorted(kk for kk in s0 if s1.get(kk) != s0[kk])
                        if diff == ["path", "path_edges", "path_events"] or set(diff) <= {"path", "path_edges", "path_events", "breakdown"}:
                            w1 = sum(x[2] for x in s1["path_edges"])
                            kind = "path-differs-same-weight" if w1 == w0 else "path-weight-differs"
                            if kind == "path-differs-same-weight" and op == "P":
                                s0 = s1  # another maximum-weight path is a legitimate answer of a recomputation
                                continue
                        else:
                            kind = "+".join(diff)
                        viol.append((f"state-changed-after/{op}/{kind}", dict(ctx, differing=diff,
                                                                           before={x: s0[x] for x in diff[:2]}, after={x: s1.get(x) for x in diff[:2]})))
                        break
    finally:
        htaenv.scratch().drop(d)
        shutil.rmtree(os.path.join("/tmp", htaenv.scratch().root.lstrip("/")), ignore_errors=True)
    return dict(viol=_dedupe(viol), nontrivial=nontrivial, outcome=tuple(outcome), execs=execs, extra_transitions=execs - 1)


def _dedupe(v):
    seen, out = set(), []
    for s, d in v:
        if s not in seen:
            seen.add(s)
            out.append((s, d))
    return out
