"""C05 - kernel breakdown partitions busy time by type and conserves per-kernel time."""
from __future__ import annotations

import itertools
from typing import Any, Dict, Iterator, List

from mc import ivworlds, nondet, refmodel

ID = "C05"
TECHNIQUE = ("bounded-exhaustive enumeration of device-activity multisets (type table: spans on an integer grid; "
             "per-kernel table: name x duration multisets x num_kernels x duration_ratio) x tie-order deviations, "
             "real get_gpu_kernel_breakdown / get_gpu_user_annotation_breakdown vs recount reference model")
RULE = ("(a) type table: every multiset (mult<=2, min start=0) of <=Ka activities, span in G_T, type in "
        "{computation, communication, memory} x include_memory_kernels in {True,False} x row orders x N1 tie "
        "orders, plus a 2-rank file slice and a session slice (the same object ran a critical-path analysis of one launch window | decode_symbol_ids | the other summary getters before); (b) per-kernel table: every multiset (mult<=2) of <=Kb kernels over "
        "names x durations (one type, fixed extra communication kernels) x num_kernels in {1,2,3,10} x "
        "duration_ratio in {0.5,0.8,1.0}, evaluated through get_gpu_kernel_breakdown and, with the same multiset "
        "as GPU user annotations, through get_gpu_user_annotation_breakdown. non-trivial = (a) two or more "
        "type combinations have positive time, (b) the 'others' aggregation triggers")
ASSUMPTIONS = [
    "pandas/numpy primitives are trusted; an unstable sort may return any order of rows with equal keys",
    "a type-combination row is identified by the set of type names in its label; a missing row means 0",
    "which names are folded into 'others' is not prescribed; only conservation, the bound on named rows and the "
    "statistics of named rows are checked",
]
TYPE_NAME = {"P": "COMPUTATION", "M": "COMMUNICATION", "Y": "MEMORY"}
KS = [1, 2, 3, 10]
QS = [0.5, 0.8, 1.0]


def bounds(tier: str) -> Dict[str, Any]:
    if tier == "quick":
        return dict(T=3, Ka=3, tie_K=2, file_K=2, Kb=3, names=3, durs=[0, 1, 2, 4], chunk=16)
    return dict(T=4, Ka=3, tie_K=3, file_K=2, Kb=5, names=3, durs=[0, 1, 2, 4], chunk=16)


def b_menu_items(b):
    """per-kernel menu: (name, dur) x 2 copies, each in its own slot of width 8; + 2 comm kernels"""
    items = []
    slot = 0
    for ni in range(b["names"]):
        for d in b["durs"]:
            for cp in range(2):
                items.append((slot * 8, slot * 8 + d, "P", ni, cp))
                slot += 1
    for ni, d in ((0, 3), (1, 5)):
        items.append((slot * 8, slot * 8 + d, "M", ni, 0))
        slot += 1
    return items


def worlds(tier: str, stats: Dict[str, Any]) -> Iterator[Any]:
    b = bounds(tier)
    T = b["T"]
    base = [(s, e, ty, 0) for (s, e) in ivworlds.spans(T) for ty in "PMY"]
    for ms in ivworlds.multisets(base, b["Ka"]):
        stats["transitions"] += 1
        if min(i[0] for i in ms) != 0:
            continue
        for mem in ((True, False) if any(i[2] == "Y" for i in ms) else (True,)):
            yield dict(mode="a", T=T, items=[list(i) for i in ms], mem=mem, ties=len(ms) <= b["tie_K"])
    for ms in ivworlds.multisets(base, b["file_K"]):
        if min(i[0] for i in ms) != 0:
            continue
        stats["transitions"] += 1
        mir = [[T - i[1], T - i[0], i[2], i[3], i[4]] for i in ms][::-1]
        yield dict(mode="afile", T=T, ranks=[[list(i) for i in ms], mir], mem=True)
        if len(ms) == 2:
            stats["transitions"] += 1
            yield dict(mode="afile", T=T, ranks=[[list(i) for i in ms]], mem=True, no_corr=True)
            if all(i[1] > i[0] for i in ms):
                # session slice: the same object was used for other analyses before
                for pk in ("cp", "decode", "getters"):
                    stats["transitions"] += 1
                    yield dict(mode="afile", T=T, ranks=[[list(i) for i in ms]], mem=True, prior=pk)
    for seq in ivworlds.history_sequences():
        stats["transitions"] += len(seq)
        yield dict(mode="history", seq=seq)
    # (b)
    menu = b_menu_items(b)
    by_key = {}
    for it in menu:
        if it[2] == "P":
            by_key[(it[3], it[1] - it[0], it[4])] = it
    comm = [list(it) for it in menu if it[2] == "M"]
    base_b = [(ni, d) for ni in range(b["names"]) for d in b["durs"]]
    for k in range(1, b["Kb"] + 1):
        for combo in itertools.combinations_with_replacement(base_b, k):
            stats["transitions"] += 1
            cnt: Dict[Any, int] = {}
            items = []
            ok = True
            for c in combo:
                n = cnt.get(c, 0)
                cnt[c] = n + 1
                if n >= 2:
                    ok = False
                    break
                items.append(list(by_key[(c[0], c[1], n)]))
            if not ok:
                continue
            yield dict(mode="b", tier=tier, items=items + comm[: (k % 3)])


_MENUS: Dict[Any, Any] = {}


def worker_init() -> None:
    nondet.install()


def _menu_a(T):
    if ("a", T) not in _MENUS:
        _MENUS[("a", T)] = ivworlds.Menu(T, "PMY", 1, 2)
    return _MENUS[("a", T)]


def _menu_b(tier):
    if ("b", tier) not in _MENUS:
        items = b_menu_items(bounds(tier))
        _MENUS[("b", tier)] = (ivworlds.Menu(items=items),
                               ivworlds.Menu(items=[(i[0], i[1], "A", i[3], i[4]) for i in items if i[2] == "P"]))
    return _MENUS[("b", tier)]


def expected_types(per_rank, mem: bool) -> Dict[frozenset, int]:
    types = "PMY" if mem else "PM"
    out: Dict[frozenset, int] = {}
    for items in per_rank.values():
        cs = {ty: refmodel.cells((i[0], i[1]) for i in items if i[2] == ty) for ty in types}
        allc = set().union(*cs.values())
        for c in allc:
            S = frozenset(TYPE_NAME[ty] for ty in types if c in cs[ty])
            out[S] = out.get(S, 0) + 1
    return out


def check_type_table(kt_df, exp: Dict[frozenset, int], tag: str, viol: List[Any], ctx) -> None:
    got: Dict[frozenset, float] = {}
    pct: Dict[frozenset, float] = {}
    for _, row in kt_df.iterrows():
        lab = str(row["kernel_type"])
        S = frozenset(x for x in lab.split(" overlapping ") if x)
        if S in got:
            viol.append((f"type-table/duplicate-row/{tag}", dict(ctx, label=lab)))
        got[S] = float(row["sum"])
        pct[S] = float(row["percentage"])
    for S in set(got) | set(exp):
        if got.get(S, 0) != exp.get(S, 0):
            viol.append((f"type-table/time-mismatch/{tag}",
                         dict(ctx, combo=sorted(S), expected=exp.get(S, 0), got=got.get(S, 0))))
            return
    total = sum(exp.values())
    if total > 0:
        for S, p in pct.items():
            if abs(p - 100.0 * exp.get(S, 0) / total) > 0.05 + 1e-9:
                viol.append((f"type-table/percentage-mismatch/{tag}", dict(ctx, combo=sorted(S), got=p)))
        if abs(sum(pct.values()) - 100.0) > 0.05 * max(1, len(pct)) + 1e-9:
            viol.append((f"type-table/percentages-not-100/{tag}", dict(ctx, got=sum(pct.values()))))


def check_kernel_table(rows, true_by_name: Dict[str, List[int]], k: int, tag: str, viol: List[Any], ctx) -> bool:
    """rows: list of dict(name,sum,max,min,mean) for one (rank,type). returns whether 'others' occurred"""
    names = [r["name"] for r in rows]
    total = sum(sum(v) for v in true_by_name.values())
    if len(set(names)) != len(names):
        viol.append((f"kernel-table/duplicate-name/{tag}", dict(ctx, names=names)))
    if abs(sum(r["sum"] for r in rows) - total) > 1e-9:
        viol.append((f"kernel-table/sum-not-conserved/{tag}", dict(ctx, rows=rows, total=total)))
    named = [r for r in rows if r["name"] != "others"]
    if len(named) > k:
        viol.append((f"kernel-table/more-than-num_kernels-named-rows/{tag}", dict(ctx, rows=rows, k=k)))
    for r in named:
        d = true_by_name.get(r["name"])
        if d is None:
            viol.append((f"kernel-table/unknown-name/{tag}", dict(ctx, row=r)))
            continue
        for stat, val in (("sum", sum(d)), ("max", max(d)), ("min", min(d)), ("mean", sum(d) / len(d))):
            if abs(r[stat] - val) > 1e-6:
                viol.append((f"kernel-table/named-row-{stat}-wrong/{tag}", dict(ctx, row=r, true=d)))
    return len(named) != len(rows)


def _rows(df, rank=None, ktype=None):
    out = []
    for _, r in df.iterrows():
        if rank is not None and int(r["rank"]) != rank:
            continue
        if ktype is not None and r["kernel_type"] != ktype:
            continue
        out.append(dict(name=r["name"], sum=float(r["sum (us)"]), max=float(r["max (us)"]),
                        min=float(r["min (us)"]), mean=float(r["mean (us)"])))
    return out


def check(world) -> Dict[str, Any]:
    if world["mode"] == "history":
        viol, execs = [], 0
        for k, m in enumerate(world["seq"]):
            fam = [list(i) for i in ivworlds.HISTORY_FAMILY[m]]
            r = check(dict(mode="afile", T=6, ranks=[fam, fam[::-1]], mem=True))
            execs += r["execs"]
            viol += [(f"history/{s}", dict(d, position_in_history=k, history=world["seq"])) for s, d in r["viol"]]
        return dict(viol=_dedupe(viol), nontrivial=True, outcome=("history", tuple(world["seq"])), execs=execs, extra_transitions=execs - 1)
    viol: List[Any] = []
    execs = 0
    mode = world["mode"]
    if mode in ("a", "afile"):
        if mode == "a":
            per_rank = {0: world["items"]}
            tas = [_menu_a(world["T"]).sub({0: [world["items"][k] for k in o]})
                   for o in ivworlds.row_orders(len(world["items"]))]
        else:
            from mc import htaenv

            per_rank = {r: its for r, its in enumerate(world["ranks"])}
            tas = [htaenv.load_world({r: ivworlds.events_for(its, no_corr=bool(world.get("no_corr")), spread=bool(world.get("prior")))
                                      for r, its in per_rank.items()})[0]]
            if world.get("prior"):
                htaenv.prior_session(tas[0], world["prior"])
        mem = world["mem"]
        exp = expected_types(per_rank, mem)
        ta = None

        def run():
            kt, ak = ta.get_gpu_kernel_breakdown(visualize=False, include_memory_kernels=mem)
            return kt, ak

        for k, ta in enumerate(tas):
            for plan, (kt, ak) in nondet.explore_ties(run, max_dev=1 if (k == 0 and world.get("ties")) else 0,
                                                          with_reverse=(k == 0 and bool(world.get("ties"))), cap=12):
                execs += 1
                tag = "stable" if (plan == "stable" and k == 0) else ("row-order" if k else "tie-order")
                ctx = dict(plan=plan, row_order=k)
                check_type_table(kt, exp, tag, viol, ctx)
                for r, items in per_rank.items():
                    for ty in ("PMY" if mem else "PM"):
                        true: Dict[str, List[int]] = {}
                        for i in items:
                            if i[2] == ty:
                                true.setdefault(ivworlds.NAMES[ty][i[3]], []).append(i[1] - i[0])
                        rows = _rows(ak, r, TYPE_NAME[ty])
                        if true or rows:
                            check_kernel_table(rows, true, 10, tag, viol, dict(ctx, rank=r, type=ty))
        nontrivial = sum(1 for v in exp.values() if v > 0) >= 2
        outcome = tuple(sorted((tuple(sorted(S)), v) for S, v in exp.items()))
        return dict(viol=_dedupe(viol), nontrivial=nontrivial, outcome=outcome, execs=execs,
                    extra_transitions=execs - 1)
    # mode b
    items = world["items"]
    mk, ma = _menu_b(world["tier"])
    ta = mk.sub({0: items})
    ta_a = ma.sub({0: [[i[0], i[1], "A", i[3], i[4]] for i in items if i[2] == "P"]})
    true_by_type: Dict[str, Dict[str, List[int]]] = {"P": {}, "M": {}, "A": {}}
    for i in items:
        true_by_type[i[2]].setdefault(ivworlds.NAMES[i[2]][i[3]], []).append(i[1] - i[0])
        if i[2] == "P":
            true_by_type["A"].setdefault(ivworlds.ANNO[i[3]], []).append(i[1] - i[0])
    exp_types = expected_types({0: items}, True)
    aggregated = False
    outs = []
    for k in KS:
        for q in QS:
            execs += 2
            ctx = dict(num_kernels=k, duration_ratio=q)
            kt, ak = ta.get_gpu_kernel_breakdown(visualize=False, num_kernels=k, duration_ratio=q,
                                                 include_memory_kernels=True)
            check_type_table(kt, exp_types, "stable", viol, ctx)
            for ty in "PM":
                rows = _rows(ak, 0, TYPE_NAME[ty])
                if true_by_type[ty] or rows:
                    aggregated |= check_kernel_table(rows, true_by_type[ty], k, "stable", viol, dict(ctx, type=ty))
            outs.append(tuple(sorted(r["name"] for r in _rows(ak, 0, "COMPUTATION"))))
            an = ta_a.get_gpu_user_annotation_breakdown(visualize=False, num_kernels=k, duration_ratio=q)
            rows = _rows(an, 0) if an is not None else []
            check_kernel_table(rows, true_by_type["A"], k, "stable", viol, dict(ctx, type="annotation"))
    return dict(viol=_dedupe(viol), nontrivial=aggregated, outcome=tuple(outs), execs=execs,
                extra_transitions=execs - 1)


def _dedupe(v):
    seen, out = set(), []
    for s, d in v:
        if s not in seen:
            seen.add(s)
            out.append((s, d))
    return out
