"""C14 - queue-length and memory-bandwidth counters are exact step functions."""
from __future__ import annotations

import itertools
import os
from typing import Any, Dict, Iterator, List, Tuple

from mc import kineto, nondet, refmodel

ID = "C14"
TECHNIQUE = ("bounded-exhaustive enumeration of launch/activity interleavings on an integer grid (all timestamp "
             "ties) x exhaustive tie orders of the unstable sorts, real queue-length / memory-bandwidth series and "
             "the written *_with_counters file vs instant-by-instant recount")
RULE = ("every multiset of <=U units on grid G_T: kernel pair (stream 7|9, launch start l, kernel start a>=l), copy "
        "pair (2 copy types + memset, bandwidth 0.5|1.25, length 0|1|2; a second activity name of the first copy type), launch without activity, activity without "
        "launch; a larger kernel-only slice; ranks requested in {None,[0],[1],[0,1]} (rank 1 = fixed world); "
        "epoch 1.7e15; single-unit worlds also with the second rank starting 50 earlier / later than the first; session slice (the same object ran a critical-path analysis of one launch window | decode_symbol_ids | the other summary getters before); N1: stable, all-reversed and every single tie group permuted; the counter file is generated "
        "and read back for every world. non-trivial = some launch and some activity start share a timestamp on one "
        "stream, or copies of one type overlap")
ASSUMPTIONS = [
    "well-formed, causally consistent trace: an activity never starts before its launch call",
    "an unstable sort may return rows with equal keys in any order",
    "copy type = first 11 characters of the activity name ('Memcpy DtoH'), 'Memset' for memsets",
]
E0 = 1_700_000_000_000_000
CT = ["Memcpy DtoH (Device -> Pageable)", "Memcpy HtoD (Pageable -> Device)", "Memset (Device)",
      "Memcpy DtoH (Device -> Pinned)"]   # the last one is a second activity name of copy type 0
BW = [0.5, 1.25]


def bounds(tier: str) -> Dict[str, Any]:
    if tier == "quick":
        return dict(T=3, U=2, Uk=3, chunk=16)
    return dict(T=4, U=2, Uk=4, chunk=16)


def unit_menu(T: int):
    ks = [["K", st, l, a] for st in (7, 9) for l in range(T) for a in range(l, T + 1)]
    ys = [["Y", c, bw, ln, l, a] for c in range(3) for bw in range(2) for ln in (0, 1, 2)
          for (l, a) in ((0, 0), (0, 1), (1, 2))]
    ys += [["Y", 3, 0, ln, l, a] for ln in (1, 2) for (l, a) in ((0, 0), (0, 1), (1, 2))]
    us = [["UL", l] for l in (0, 1)] + [["UA", 7, a] for a in (0, 1)] + [["UY", 0, 1, 1, 1]]
    return ks, ys, us


def worlds(tier: str, stats: Dict[str, Any]) -> Iterator[Any]:
    b = bounds(tier)
    ks, ys, us = unit_menu(b["T"])
    allu = ks + ys + us
    seen = set()
    for n in range(1, b["U"] + 1):
        for combo in itertools.combinations_with_replacement(allu, n):
            stats["transitions"] += 1
            yield dict(units=[list(u) for u in combo])
            if n == 1 and combo[0][0] in "KY":
                # the second rank starts recording earlier / later than the first one
                for sh in (-50, 50):
                    stats["transitions"] += 1
                    yield dict(units=[list(u) for u in combo], rank1_shift=sh)
            if n >= 2:
                stats["transitions"] += 1
                yield dict(units=[list(u) for u in combo], file_order="reversed")
                if combo[0][0] == "K" and combo[1][0] == "Y" and combo[0][1] == 7 and combo[1][1] == 0 and combo[1][2] == 0:
                    # session slice: the same object was used for other analyses before
                    for pk in ("cp", "decode", "getters"):
                        stats["transitions"] += 1
                        yield dict(units=[list(u) for u in combo], prior=pk)
            seen.add(tuple(map(tuple, combo)))
    for n in range(b["U"] + 1, b["Uk"] + 1):
        for combo in itertools.combinations_with_replacement([k for k in ks if k[1] == 7], n):
            stats["transitions"] += 1
            yield dict(units=[list(u) for u in combo])


def build(units) -> List[Dict[str, Any]]:
    evs = [kineto.cpu_op("aten::root", E0 - 1, 1, ext=0)]
    corr = 40
    for u in units:
        if u[0] == "K":
            evs.append(kineto.runtime("cudaLaunchKernel", E0 + u[2], 1, corr))
            evs.append(kineto.kernel("kern_a", E0 + u[3], 1, u[1], corr))
        elif u[0] == "Y":
            _, c, bw, ln, l, a = u
            evs.append(kineto.runtime("cudaMemsetAsync" if c == 2 else "cudaMemcpyAsync", E0 + l, 1, corr))
            if c == 2:
                e = kineto.memset(CT[c], E0 + a, ln, 7, corr)
                e["args"]["memory bandwidth (GB/s)"] = BW[bw]
            else:
                e = kineto.memcpy(CT[c], E0 + a, ln, 7, corr, bw=BW[bw])
            evs.append(e)
        elif u[0] == "UL":
            evs.append(kineto.runtime("cudaLaunchKernel", E0 + u[1], 1, corr))
        elif u[0] == "UA":
            evs.append(kineto.kernel("kern_orphan", E0 + u[2], 1, u[1], corr))
        elif u[0] == "UY":
            evs.append(kineto.memcpy(CT[u[1]], E0 + u[4], u[3], 9, corr, bw=BW[u[2]]))
        corr += 1
    return evs


def build_world(w) -> List[Dict[str, Any]]:
    evs = build(w["units"])
    if w.get("file_order") == "reversed":
        evs = evs[:1] + evs[1:][::-1]   # Kineto does not write events in time order
    return evs


RANK1 = [["K", 7, 0, 1], ["Y", 0, 0, 1, 0, 1]]
LAUNCH_NAMES = ("cudaLaunchKernel", "cudaLaunchKernelExC", "cudaMemcpyAsync", "cudaMemsetAsync")


def expected(events):
    """queue: stream -> {t: value after t}; bw: type -> {t: value after t}  (file time base)"""
    rows = refmodel.parse_rows(events)
    lk = refmodel.links(rows)
    by = {r["id"]: r for r in rows}
    qev: Dict[int, List[Tuple[int, int]]] = {}
    for r in rows:
        if r["name"] in LAUNCH_NAMES and lk[r["id"]] > 0:
            act = by[lk[r["id"]]]
            qev.setdefault(act["stream"], []).append((r["ts"], +1))
            qev.setdefault(act["stream"], []).append((act["ts"], -1))
    queue = {}
    for s, evs in qev.items():
        ts = sorted({t for t, _ in evs})
        queue[s] = {t: sum(d for (u, d) in evs if u <= t) for t in ts}
    bw: Dict[str, Dict[int, float]] = {}
    copies = [r for r in rows if r["stream"] != -1 and (r["name"].startswith("Memcpy") or r["name"].startswith("Memset"))]
    for r in copies:
        ty = "Memset" if r["name"].startswith("Memset") else r["name"][:11]
        bw.setdefault(ty, {})
    for ty in bw:
        cs = [(r["ts"], r["ts"] + max(r["dur"], 1), r["args"].get("memory bandwidth (GB/s)", 0.0)) for r in copies
              if ("Memset" if r["name"].startswith("Memset") else r["name"][:11]) == ty]
        for t in sorted({x for c in cs for x in c[:2]}):
            bw[ty][t] = sum(c[2] for c in cs if c[0] <= t < c[1])
    return queue, bw


def step_check(rows: List[Tuple[float, float]], exp: Dict[int, float], what: str, tag: str, viol, ctx, lo: float) -> None:
    ts = [t for t, _ in rows]
    if ts != sorted(ts):
        viol.append((f"{what}/rows-not-time-ordered/{tag}", dict(ctx, rows=rows)))
        return
    if sorted(set(ts)) != sorted(exp):
        viol.append((f"{what}/instants-differ/{tag}", dict(ctx, rows=rows, expected=exp)))
        return
    last = {}
    for t, v in rows:
        last[t] = v
        if v < lo:
            viol.append((f"{what}/negative-value/{tag}", dict(ctx, rows=rows, expected=exp)))
    for t, v in exp.items():
        if abs(last[t] - v) > 1e-9:
            viol.append((f"{what}/value-after-instant-wrong/{tag}", dict(ctx, rows=rows, expected=exp)))
            break
    if rows and abs(rows[-1][1]) > 1e-9:
        viol.append((f"{what}/does-not-end-at-0/{tag}", dict(ctx, rows=rows)))


def check(world) -> Dict[str, Any]:
    from hta.trace_analysis import TimeSeriesTypes
    from mc import htaenv

    viol: List[Any] = []
    evs0, evs1 = build_world(world), build(RANK1)
    sh = world.get("rank1_shift", 0)
    for e in evs1:
        e["ts"] += sh
    ranks = {0: evs0, 1: evs1}
    exp = {r: expected(e) for r, e in ranks.items()}
    m = E0 - 1 + min(sh, 0)
    ta, d = htaenv.load_world(ranks, keep=True)
    if world.get("prior"):
        htaenv.prior_session(ta, world["prior"])
    execs = 0
    try:
        reqs = [None, [0], [1], [0, 1]]

        def run():
            out = {}
            for req in reqs:
                q = ta.get_queue_length_time_series(req)
                w = ta.get_memory_bw_time_series(req)
                out[str(req)] = (
                    {int(r): {int(s): [(int(t), int(v)) for t, v in zip(g["ts"], g["queue_length"])]
                              for s, g in df.groupby("stream", sort=False)} for r, df in q.items()},
                    {int(r): {str(n): [(int(t), float(v)) for t, v in zip(g["ts"], g["memory_bw_gbps"])]
                              for n, g in df.groupby("name", sort=False)} for r, df in w.items()},
                    {int(r): {(int(p), int(td), int(s)) for p, td, s in zip(df["pid"], df["tid"], df["stream"])} for r, df in q.items()},
                )
            return out

        def all_runs():
            nonlocal reqs
            yield "stable", run()
            reqs = [None]
            for plan, res in nondet.explore_ties(run, max_dev=1, cap=16):
                if plan != "stable":
                    yield plan, res

        for plan, res in all_runs():
            execs += 1
            tag = "stable" if plan == "stable" else "tie-order"
            for req, (q, w, ids) in res.items():
                want = {"None": [0], "[0]": [0], "[1]": [1], "[0, 1]": [0, 1]}[req]
                for what, got, ex_idx in (("queue", q, 0), ("membw", w, 1)):
                    want_r = [r for r in want if exp[r][ex_idx]]
                    if sorted(got) != want_r:
                        viol.append((f"{what}/rank-set/{tag}", dict(req=req, got=sorted(got), expected=want_r)))
                        continue
                    for r in want_r:
                        e = exp[r][ex_idx]
                        if set(got[r]) != set(e):
                            viol.append((f"{what}/series-keys/{tag}", dict(req=req, rank=r, got=sorted(got[r]), expected=sorted(e))))
                            continue
                        for key in e:
                            step_check(got[r][key], {t - m: v for t, v in e[key].items()}, what, tag, viol,
                                       dict(plan=plan, rank=r, key=key, units=world["units"]), 0 if what == "queue" else -1e-9)
                for r, s in ids.items():
                    if any(p != 0 or td != st for (p, td, st) in s):
                        viol.append((f"queue/pid-tid-not-of-device-stream/{tag}", dict(rank=r, got=sorted(s))))
        # counter file, unshifted timestamps
        execs += 1
        ta.generate_trace_with_counters(ranks=[0, 1])
        for r in (0, 1):
            src = os.path.join(d, f"rank{r}.json")
            out = os.path.join(d, f"rank{r}_with_counters.json")
            q, w = exp[r]
            if not os.path.exists(out):
                if q or w:
                    viol.append(("counter-file/missing", dict(rank=r)))
                continue
            tr = kineto.read_any(out)
            extra = tr["traceEvents"][len(ranks[r]):]
            if tr["traceEvents"][:len(ranks[r])] != ranks[r]:
                viol.append(("counter-file/source-events-changed", dict(rank=r)))
            series: Dict[Any, List[Tuple[int, float]]] = {}
            for e in extra:
                if e.get("ph") != "C" or len(e.get("args", {})) != 1:
                    viol.append(("counter-file/not-a-counter-event", dict(rank=r, event=e)))
                    continue
                (cn, val), = e["args"].items()
                key = ("queue", int(e["id"])) if cn == "Queue Length" else ("membw", e["name"])
                if cn == "Queue Length" and (e["name"] != "Queue Length" or e["pid"] != 0):
                    viol.append(("counter-file/queue-event-name-or-pid", dict(rank=r, event=e)))
                series.setdefault(key, []).append((e["ts"], val))
            wantk = {("queue", s) for s in q} | {("membw", n) for n in w}
            if set(series) != wantk:
                viol.append(("counter-file/series-keys", dict(rank=r, got=sorted(map(str, series)), expected=sorted(map(str, wantk)))))
                continue
            for (what, key), rows in series.items():
                step_check(rows, (q if what == "queue" else w)[key], f"counter-file-{what}", "unshifted", viol,
                           dict(rank=r, key=key, units=world["units"]), 0 if what == "queue" else -1e-9)
    finally:
        htaenv.scratch().drop(d)
    q0, w0 = exp[0]
    rows = refmodel.parse_rows(evs0)
    tie = any(len({u[3] for u in world["units"] if u[0] == "K" and u[1] == st} & {u[2] for u in world["units"] if u[0] == "K" and u[1] == st}) > 0
              for st in (7, 9))
    nontrivial = tie or any(max(v.values(), default=0) > 1.25 for v in w0.values())
    outcome = (tuple(sorted((s, tuple(sorted(v.items()))) for s, v in q0.items())),
               tuple(sorted((s, tuple(sorted(v.items()))) for s, v in w0.items())))
    return dict(viol=_dedupe(viol), nontrivial=nontrivial, outcome=outcome, execs=execs,
                extra_transitions=execs - 1)


def _dedupe(v):
    seen, out = set(), []
    for s, d in v:
        if s not in seen:
            seen.add(s)
            out.append((s, d))
    return out
