"""C20 - trace files written by the tool preserve every source event."""
from __future__ import annotations

import copy
import itertools
import os
from typing import Any, Dict, Iterator, List

from mc import cpworlds, kineto, refmodel

ID = "C20"
TECHNIQUE = ("bounded-exhaustive enumeration of source traces with every non-complete entry kind interleaved at every "
             "position x file formats x rank values x overlay option combinations x file-list orders; every written "
             "file is read back and compared entry by entry with the source")
RULE = ("counters: a base trace (host op, launch+kernel, memcpy pair) with one extra entry of each kind {metadata, flow "
        "start, flow end, instant, profiler Trace span, complete entry without category, annotation without the optional args object} inserted at every position, "
        "and all of them at once, x {.json, .json.gz} x rank in {0, 7}; overlay: C08 worlds (every third program) with "
        "extras interleaved x the 4 combinations of only_show_critical_events / show_all_edges x both formats x "
        "zero-weight-launch-edge display flag; writer/reader: write_trace -> read_trace and update_trace_rank for rank "
        "in {0,1,7,12} with and without existing distributedInfo; rank discovery: every set of <=3 files with distinct "
        "ranks from {0,1,7,12} (at most one file without rank metadata), mixed formats and JSON layouts (indented, one line, compact, rank metadata after a long indented event list), every order of "
        "the file list. non-trivial = the written file differs from the source (appended events or markers)")
ASSUMPTIONS = [
    "events on the critical path carry an args dict (Kineto always writes one for operators, runtime calls and activities)",
    "a file without rank metadata is assigned rank 0, as documented by the tool's warning",
]
E0 = 1_700_000_000_000_000
EXTRA_KINDS = "MsfiTxa"


def bounds(tier: str) -> Dict[str, Any]:
    return dict(chunk=6, compact_json=True)


def extra(kind: str, k: int) -> Dict[str, Any]:
    ts = E0 + 2 + k
    if kind == "M":
        return kineto.meta_event(ts)
    if kind == "s":
        return kineto.flow("s", 77, kineto.HOST_PID, kineto.MAIN_TID, ts)
    if kind == "f":
        return kineto.flow("f", 77, 0, 7, ts)
    if kind == "i":
        return kineto.instant(ts)
    if kind == "T":
        return kineto.trace_span(E0, 50)
    if kind == "x":
        return {"ph": "X", "name": "nocat", "pid": kineto.HOST_PID, "tid": kineto.MAIN_TID, "ts": ts, "dur": 1, "args": {}}
    if kind == "a":   # a complete event without the optional "args" object (annotation on a thread of its own)
        return {"ph": "X", "cat": "user_annotation", "name": "bare_annotation", "pid": kineto.HOST_PID, "tid": 555, "ts": ts, "dur": 1}
    raise ValueError(kind)


def base_counter_trace() -> List[Dict[str, Any]]:
    return [kineto.cpu_op("aten::root", E0, 40, ext=0),
            kineto.runtime("cudaLaunchKernel", E0 + 2, 2, 11), kineto.kernel("kern_a", E0 + 5, 3, 7, 11),
            kineto.runtime("cudaMemcpyAsync", E0 + 9, 2, 12),
            kineto.memcpy("Memcpy DtoH (Device -> Pageable)", E0 + 12, 2, 7, 12, bw=0.5)]


def worlds(tier: str, stats: Dict[str, Any]) -> Iterator[Any]:
    b = bounds(tier)
    base = base_counter_trace()
    n = len(base)
    for fmt in ("json", "json.gz"):
        for rank in (0, 7):
            stats["transitions"] += 1
            yield dict(mode="counters", fmt=fmt, rank=rank, inserts=[])
            for kind in EXTRA_KINDS:
                for pos in range(1, n + 1):
                    stats["transitions"] += 1
                    yield dict(mode="counters", fmt=fmt, rank=rank, inserts=[[pos, kind]])
            stats["transitions"] += 1
            yield dict(mode="counters", fmt=fmt, rank=rank, inserts=[[1 + (i % n), k] for i, k in enumerate(EXTRA_KINDS)])
    for w in cpworlds.worlds(tier, stats, subset="small"):
        for fmt in ("json", "json.gz"):
            stats["transitions"] += 1
            yield dict(mode="overlay", fmt=fmt, cp=w)
    # writer / reader / rank update
    for with_info in (True, False):
        for fmt in ("json", "json.gz"):
            for r in (0, 1, 7, 12):
                stats["transitions"] += 1
                yield dict(mode="rw", fmt=fmt, with_info=with_info, new_rank=r)
    # rank discovery
    layouts = ["indent", "oneline"] + (["compact"] if b["compact_json"] else [])
    ranks = [0, 1, 7, 12, None]
    for nfiles in (1, 2, 3):
        for rs in itertools.permutations(ranks, nfiles):
            if list(rs).count(None) > 1 or (None in rs and 0 in rs):
                continue
            for lay in layouts:
                stats["transitions"] += 1
                yield dict(mode="discover", ranks=list(rs), layout=lay)
            if nfiles <= 2 and None not in rs:
                stats["transitions"] += 1
                yield dict(mode="discover", ranks=list(rs), layout="indent-trailing-long")


def build_counter_world(w) -> List[Dict[str, Any]]:
    evs = base_counter_trace()
    for k, (pos, kind) in enumerate(sorted(w["inserts"], key=lambda x: -x[0])):
        evs.insert(pos, extra(kind, k))
    return evs


def check_counters(w, viol) -> int:
    from mc import htaenv

    src = build_counter_world(w)
    sc = htaenv.scratch()
    d = sc.fresh()
    try:
        path = os.path.join(d, f"trace.{w['fmt']}")
        kineto.write_file(path, kineto.trace_dict(src, w["rank"]))
        before = kineto.read_any(path)
        ta = htaenv.load_dir(d)
        ta.generate_trace_with_counters(ranks=[w["rank"]])
        after_src = kineto.read_any(path)
        if after_src != before:
            viol.append(("counters/source-file-modified", dict(world=w)))
        out = path.replace(".json", "_with_counters.json")
        if not os.path.exists(out):
            viol.append(("counters/no-output-file", dict(world=w, files=os.listdir(d))))
            return 1
        res = kineto.read_any(out)
        got = res["traceEvents"]
        if got[: len(src)] != src:
            kind = "source-events-changed-or-reordered" if len(got) >= len(src) else "source-events-lost"
            viol.append((f"counters/{kind}", dict(world=w, first_difference=next((i for i, (a, b_) in enumerate(zip(got, src)) if a != b_), None))))
        for e in got[len(src):]:
            if e.get("ph") != "C":
                viol.append(("counters/appended-entry-is-not-a-counter", dict(world=w, entry=e)))
                break
        if len(got) <= len(src):
            viol.append(("counters/nothing-appended", dict(world=w)))
        meta_before = {k: v for k, v in before.items() if k != "traceEvents"}
        meta_after = {k: v for k, v in res.items() if k != "traceEvents"}
        if meta_before != meta_after:
            viol.append(("counters/metadata-changed", dict(world=w, before=meta_before, after=meta_after)))
        # the written file is itself a trace file: rank discovery must find the rank recorded in its metadata
        from hta.common.trace_file import create_rank_to_trace_dict

        ok, mp = create_rank_to_trace_dict([out])
        if not ok or mp != {w["rank"]: out}:
            viol.append(("counters/written-file-discovered-under-wrong-rank", dict(world=w, got={str(k): v for k, v in mp.items()})))
    finally:
        sc.drop(d)
    return 1


def check_overlay(w, viol) -> int:
    from mc import htaenv

    cpw = w["cp"]
    src = cpworlds.build(cpw)
    # interleave one extra of each kind (positions spread over the file, never at position 0)
    for k, kind in enumerate(EXTRA_KINDS):
        src.insert(1 + (k * 2) % max(len(src) - 1, 1), extra(kind, k))
    sc = htaenv.scratch()
    d = sc.fresh()
    execs = 0
    try:
        path = os.path.join(d, f"trace.{w['fmt']}")
        kineto.write_file(path, kineto.trace_dict(src, 0))
        ta = htaenv.load_dir(d)
        res = cpworlds.analyse(ta, "", None, cpw["flag"])
        if res is None or not res[1]:
            return 1
        g = res[0]
        crit_events = {int(x) for x in g.critical_path_events_set}
        for only_crit, all_edges in itertools.product((False, True), repeat=2):
            for show_zero in ((False, True) if all_edges and not only_crit else (False,)):
                execs += 1
                tag = f"overlay/only_critical={only_crit}/all_edges={all_edges}"
                ctx = dict(world=w, only_show_critical_events=only_crit, show_all_edges=all_edges, show_zero_launch=show_zero)
                out_dir = os.path.join(d, f"out_{only_crit}_{all_edges}_{show_zero}")
                if show_zero:
                    os.environ["CRITICAL_PATH_SHOW_ZERO_WEIGHT_LAUNCH_EDGE"] = "1"
                try:
                    out = ta.overlay_critical_path_analysis(0, g, output_dir=out_dir, only_show_critical_events=only_crit,
                                                            show_all_edges=all_edges)
                finally:
                    os.environ.pop("CRITICAL_PATH_SHOW_ZERO_WEIGHT_LAUNCH_EDGE", None)
                if not out or not os.path.exists(out):
                    viol.append((f"{tag}/no-output-file", ctx))
                    continue
                got = kineto.read_any(out)["traceEvents"]
                # expected kept source entries
                exp = []
                for i, e in enumerate(src):
                    e2 = copy.deepcopy(e)
                    if i in crit_events:
                        e2.setdefault("args", {})["critical"] = 1
                    keep = (not only_crit) or e.get("ph") != "X" or e.get("cat", "") in ("user_annotation", "python_function") or i in crit_events
                    if keep:
                        exp.append(e2)
                body = got[: len(exp)]
                if body != exp:
                    marked_got = [i for i, e in enumerate(body) if isinstance(e.get("args"), dict) and e["args"].get("critical") == 1]
                    strip = lambda evs: [{k: ({kk: vv for kk, vv in v.items() if kk != "critical"} if k == "args" and isinstance(v, dict) else v)
                                          for k, v in e.items()} for e in evs]
                    if strip(body) == strip(exp):
                        viol.append((f"{tag}/critical-markers-on-wrong-events", dict(ctx, marked_positions=marked_got)))
                    else:
                        viol.append((f"{tag}/source-events-lost-changed-or-reordered", dict(ctx, n_got=len(got), n_expected=len(exp),
                                     first_difference=next((i for i, (a, b_) in enumerate(zip(body, exp)) if a != b_), None))))
                    continue
                flows = got[len(exp):]
                # drawn edges
                if all_edges and not only_crit:
                    edges = [g.edges[u, v]["object"] for u, v in g.edges]
                    if not show_zero:
                        edges = [e for e in edges if not (e.type.name == "KERNEL_LAUNCH_DELAY" and e.weight == 0)]
                else:
                    edges = list(g.critical_path_edges_set)
                if len(flows) != 2 * len(edges) or any(f.get("ph") not in ("s", "f") for f in flows):
                    viol.append((f"{tag}/flow-event-count-differs-from-drawn-edges", dict(ctx, flows=len(flows), edges=len(edges))))
                    continue
                pairs: Dict[Any, Dict[str, Any]] = {}
                for f in flows:
                    pairs.setdefault(f["id"], {})[f["ph"]] = f
                want = sorted(((src[int(g.node_list[e.begin].ev_idx)]["pid"], src[int(g.node_list[e.begin].ev_idx)]["tid"]),
                               (src[int(g.node_list[e.end].ev_idx)]["pid"], src[int(g.node_list[e.end].ev_idx)]["tid"]), e.type.value,
                               int(e.weight)) for e in edges)
                try:
                    have = sorted(((p["s"]["pid"], p["s"]["tid"]), (p["f"]["pid"], p["f"]["tid"]), p["s"]["cat"], int(p["s"]["args"]["weight"]))
                                  for p in pairs.values())
                except KeyError:
                    viol.append((f"{tag}/flow-events-not-paired", ctx))
                    continue
                if have != want:
                    viol.append((f"{tag}/flow-events-on-wrong-threads-or-edges", dict(ctx, got=have[:6], expected=want[:6])))
                crit_edges = set(g.critical_path_edges_set)
                ncrit = sum(1 for p in pairs.values() if p["s"]["args"].get("critical"))
                if ncrit != len([e for e in edges if e in crit_edges]):
                    viol.append((f"{tag}/critical-flag-of-flow-events-wrong", dict(ctx, got=ncrit)))
    finally:
        sc.drop(d)
    return max(execs, 1)


def check_rw(w, viol) -> int:
    from hta.common.trace_file import read_trace, update_trace_rank, write_trace
    from mc import htaenv

    src = build_counter_world(dict(inserts=[[1 + i, k] for i, k in enumerate(EXTRA_KINDS[:5])]))
    data = kineto.trace_dict(src, 3 if w["with_info"] else None, extra_meta={"deviceProperties": [{"id": 0, "name": "GPU"}]})
    if w["with_info"]:
        data["distributedInfo"].update(backend="nccl", world_size=8)
    sc = htaenv.scratch()
    d = sc.fresh()
    try:
        path = os.path.join(d, "sub", f"t.{w['fmt']}")
        write_trace(copy.deepcopy(data), path)
        back = read_trace(path)
        if back != data:
            viol.append(("writer-reader/round-trip-changes-the-trace", dict(world=w)))
        update_trace_rank(path, w["new_rank"])
        upd = read_trace(path)
        if upd.get("distributedInfo", {}).get("rank") != w["new_rank"]:
            viol.append(("rank-update/rank-not-set", dict(world=w, got=upd.get("distributedInfo"))))
        a = {k: v for k, v in upd.items() if k != "distributedInfo"}
        b_ = {k: v for k, v in data.items() if k != "distributedInfo"}
        if a != b_ or upd["traceEvents"] != data["traceEvents"]:
            viol.append(("rank-update/other-content-changed", dict(world=w)))
        if w["with_info"] and {k: v for k, v in upd["distributedInfo"].items() if k != "rank"} != {k: v for k, v in data["distributedInfo"].items() if k != "rank"}:
            viol.append(("rank-update/other-distributed-info-changed", dict(world=w)))
        # the updated file is discovered under its new rank and loads
        from hta.common.trace_file import create_rank_to_trace_dict

        ok, m = create_rank_to_trace_dict([path])
        if not ok or m != {w["new_rank"]: path}:
            viol.append(("rank-update/updated-file-discovered-under-wrong-rank", dict(world=w, got={str(k): v for k, v in m.items()})))
    finally:
        sc.drop(d)
    return 3


def check_discover(w, viol) -> int:
    import gzip
    import json

    from hta.common.trace_file import create_rank_to_trace_dict
    from mc import htaenv

    sc = htaenv.scratch()
    d = sc.fresh()
    execs = 0
    try:
        paths = {}
        for i, r in enumerate(w["ranks"]):
            fmt = "json.gz" if i % 2 else "json"
            p = os.path.join(d, f"file_{chr(ord('c') - i)}.{fmt}")
            info = None if r is None else r
            data = kineto.trace_dict(build_counter_world(dict(inserts=[])), info,
                                     extra_meta={"deviceProperties": [{"id": 0}]} if i else None)
            if r is not None:
                data["distributedInfo"] = {"backend": "nccl", "rank": r, "world_size": 16}
                data = {"schemaVersion": 1, "distributedInfo": data["distributedInfo"], **{k: v for k, v in data.items() if k not in ("schemaVersion", "distributedInfo")}}
            if w["layout"] == "indent-trailing-long":
                # the rank metadata follows a long, indented event list (what update_trace_rank + write_trace produce
                # for a file that had no distributedInfo): several thousand lines precede the rank
                evs = list(data["traceEvents"])
                evs += [kineto.cpu_op(f"aten::filler{k % 7}", E0 + 100 + 3 * k, 2, ext=1000 + k) for k in range(700)]
                data = {k: v for k, v in data.items() if k not in ("distributedInfo", "traceEvents")}
                data["traceEvents"] = evs
                if r is not None:
                    data["distributedInfo"] = {"backend": "nccl", "rank": r, "world_size": 16}
                text = json.dumps(data, indent=2)
            elif w["layout"] == "indent":
                text = json.dumps(data, indent=2)
            elif w["layout"] == "oneline":
                text = json.dumps(data)
            else:
                text = json.dumps(data, separators=(",", ":"))
            if fmt.endswith(".gz"):
                with gzip.open(p, "wt") as fh:
                    fh.write(text)
            else:
                with open(p, "w") as fh:
                    fh.write(text)
            paths[p] = 0 if r is None else r
        for order in itertools.permutations(list(paths)):
            execs += 1
            ok, m = create_rank_to_trace_dict(list(order))
            want = {r: p for p, r in paths.items()}
            if not ok or m != want:
                viol.append((f"rank-discovery/wrong-mapping/{w['layout']}", dict(world=w, got={str(k): os.path.basename(v) for k, v in m.items()},
                                                                                 expected={str(k): os.path.basename(v) for k, v in want.items()})))
                break
    finally:
        sc.drop(d)
    return execs


def check(world) -> Dict[str, Any]:
    viol: List[Any] = []
    mode = world["mode"]
    if mode == "counters":
        execs = check_counters(world, viol)
    elif mode == "overlay":
        execs = check_overlay(world, viol)
    elif mode == "rw":
        execs = check_rw(world, viol)
    else:
        execs = check_discover(world, viol)
    return dict(viol=_dedupe(viol), nontrivial=mode in ("counters", "overlay", "rw"), outcome=(mode, execs, str(world.get("inserts", ""))[:40]),
                execs=execs, extra_transitions=max(execs - 1, 0))


def _dedupe(v):
    seen, out = set(), []
    for s, d in v:
        if s not in seen:
            seen.add(s)
            out.append((s, d))
    return out
