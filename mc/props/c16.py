"""C16 - frequent kernel sequences count exactly the kernels launched under each operator."""
from __future__ import annotations

import itertools
import os
from typing import Any, Dict, Iterator, List

from mc import kineto, refmodel, reftree

ID = "C16"
TECHNIQUE = ("bounded-exhaustive enumeration of operator-instance sequences built from 12 tree templates (name at one "
             "or two depths, nested same-name operators, missing kernels, copies, equal-start kernels) x operator name "
             "x min_pattern_len x top_k, real get_frequent_cuda_kernel_sequences vs recount from the reference tree")
RULE = ("every sequence of <=L top-level instances drawn (with repetition) from 14 templates over operator names "
        "{aten::A, aten::B} and activities {kern_x, kern_y, memcpy, a long kernel, a zero-duration kernel}; evaluated for operator in {aten::A, aten::B, "
        "absent name} x min_pattern_len in {0,1,2,3} x top_k in {1,5}; sequences of length <=2 also without the leading helper operator (the first instance is event 0 of the file); length-2 sequences also with the file order reversed and in a session slice (the same object ran a critical-path analysis | decode_symbol_ids | the other summary getters before); a variant wraps everything in profiler-step "
        "annotations, another analyses it as rank 1 of a two-rank job. non-trivial = at least two patterns, or an instance excluded by depth or by min_pattern_len")
ASSUMPTIONS = [
    "operator names of the alphabet are not substrings of one another or of activity names, so 'matching' is exact",
    "activities with equal start time may appear in either order: for worlds containing the equal-start template "
    "patterns are compared after sorting the activity names inside each pattern",
    "host events have positive duration (C03's known finding is out of scope here)",
]
E0 = 1_700_000_000_000_000
A, B = "aten::A", "aten::B"
KX, KY, MC = "kern_x", "kern_y", "Memcpy DtoD (Device -> Device)"
KZ = "kern_zero"  # activity recorded with a duration of 0
KB = "kern_big"   # long activity: per-operator duration sums beyond any 8-bit range
# template = nested list: (name, [children]) where a child is a template or ("L", kernel name | None, kernel_start_offset)
TEMPLATES = [
    (A, [("L", KX, 2)]),
    (A, [("L", KX, 2), ("L", KY, 2)]),
    (A, [(B, [("L", KX, 2)])]),
    (B, [(A, [("L", KX, 2)]), ("L", KY, 2)]),
    (A, [(A, [("L", KX, 2)]), ("L", KY, 2)]),
    (A, []),
    (A, [("L", None, 0)]),
    (A, [("L", KY, 9), ("L", KX, 5)]),      # both kernels start at the same instant
    (A, [("L", MC, 2), ("L", KX, 3)]),
    (B, [("L", KY, 2), ("L", KX, 20)]),
    (A, [("L", KX, 2), (B, [("L", KY, 2), ("L", KX, 3)])]),
    (A, [("L", KB, 2), ("L", KB, 400)]),
    (A, [("L", KZ, 2)]),                                   # the only activity has zero duration
    (A, [("L", KX, 2), ("L", KZ, 2), ("L", KY, 2)]),       # three activities, one of zero duration (min_pattern_len=3)
]
TIE_TEMPLATE = 7


def bounds(tier: str) -> Dict[str, Any]:
    if tier == "quick":
        return dict(L=2, L3_subset=[0, 1, 3, 4, 7, 11], chunk=4)
    return dict(L=3, L3_subset=list(range(len(TEMPLATES))), chunk=4)


def worlds(tier: str, stats: Dict[str, Any]) -> Iterator[Any]:
    b = bounds(tier)
    n = len(TEMPLATES)
    for L in range(1, b["L"] + 1):
        for seq in itertools.product(range(n), repeat=L):
            stats["transitions"] += 1
            yield dict(seq=list(seq), steps=False)
            if L <= 2:
                # no leading helper operator: the first instance is the first event of the file (event id 0)
                stats["transitions"] += 1
                yield dict(seq=list(seq), steps=False, no_root=True)
            if L == 1:
                yield dict(seq=list(seq), steps=True)
                stats["transitions"] += 1
                yield dict(seq=list(seq), steps=False, as_rank1=True)
            if L == 2:
                stats["transitions"] += 1
                yield dict(seq=list(seq), steps=False, file_order="reversed")
                if seq[0] != seq[1]:
                    # session slice: the same object was used for other analyses before
                    pk = ("cp", "decode", "getters")[(seq[0] + seq[1]) % 3]
                    stats["transitions"] += 1
                    yield dict(seq=list(seq), steps=False, prior=pk)
    if b["L"] < 3:
        for seq in itertools.product(b["L3_subset"], repeat=3):
            stats["transitions"] += 1
            yield dict(seq=list(seq), steps=False)


def build(world) -> List[Dict[str, Any]]:
    evs = [kineto.cpu_op("aten::root", E0 - 9, 3, ext=0)]
    state = dict(t=E0 + 2, corr=70)

    def emit(node):
        name, children = node
        start = state["t"]
        idx = len(evs)
        evs.append(None)
        state["t"] += 1
        for c in children:
            if c[0] == "L":
                ts = state["t"]
                evs.append(kineto.runtime("cudaMemcpyAsync" if c[1] == MC else "cudaLaunchKernel", ts, 1, state["corr"]))
                if c[1] == MC:
                    evs.append(kineto.memcpy(MC, ts + c[2], 2, 9, state["corr"], bw=1.0))
                elif c[1] is not None:
                    evs.append(kineto.kernel(c[1], ts + c[2], {KX: 3, KY: 4, KB: 300, KZ: 0}[c[1]], 7, state["corr"]))
                state["corr"] += 1
                state["t"] += 4
            else:
                emit(c)
        state["t"] += 1
        evs[idx] = kineto.cpu_op(name, start, state["t"] - start, ext=idx)
        state["t"] += 2

    for k in world["seq"]:
        emit(TEMPLATES[k])
    if world["steps"]:
        evs.insert(1, kineto.step(5, E0, state["t"] - E0 + 5))
    if world.get("no_root"):
        evs = evs[1:]
    if world.get("file_order") == "reversed":
        evs = evs[:1] + evs[1:][::-1]
    return evs


def expected(rows, op: str, m: int, tie: bool):
    ref = reftree.build(rows)
    by = ref["by"]
    cands = [i for i in ref["info"] if by[i]["name"] == op and i not in ref["device"]]
    if not cands:
        return {}
    d0 = min(ref["info"][i]["depth"] for i in cands)
    out: Dict[str, List[int]] = {}
    for i in cands:
        e = ref["info"][i]
        if e["depth"] != d0 or e["num_kernels"] < m:
            continue
        ks = sorted((by[d] for d in ref["descendants"](i) if d in ref["device"]), key=lambda r: (r["ts"], r["name"]))
        names = [k["name"] for k in ks]
        if tie:
            names = sorted(names)
        pat = "|".join([op] + names)
        o = out.setdefault(pat, [0, 0, 0])
        o[0] += 1
        o[1] += e["kernel_dur_sum"]
        o[2] += by[i]["dur"]
    return out


def check(world) -> Dict[str, Any]:
    from mc import htaenv

    viol: List[Any] = []
    evs = build(world)
    rows = refmodel.parse_rows(evs)
    tie = TIE_TEMPLATE in world["seq"]
    rank = 1 if world.get("as_rank1") else 0
    if rank:
        # the same trace as rank 1 of a two-rank job whose rank 0 looks different (and is what rank=0 would analyse)
        ta, d = htaenv.load_world({0: build(dict(seq=[3, 9], steps=False)), 1: evs}, keep=True)
    else:
        ta, d = htaenv.load_world({0: evs}, keep=True)
        if world.get("prior"):
            htaenv.prior_session(ta, world["prior"])
    out_dir = os.path.join(d, "out")
    os.makedirs(out_dir)
    execs = 0
    npat = 0
    excluded = False
    try:
        for op in (A, B, "aten::absent"):
            for m in (0, 1, 2, 3):
                exp = expected(rows, op, m, tie)
                exp_all = expected(rows, op, 0, tie)
                npat = max(npat, len(exp))
                excluded |= sum(v[0] for v in exp.values()) < sum(1 for r in rows if r["name"] == op)
                for k in (1, 5) if m else (5,):
                    execs += 1
                    df = ta.get_frequent_cuda_kernel_sequences(op, out_dir, min_pattern_len=m, rank=rank, top_k=k, visualize=False)
                    got: Dict[str, List[int]] = {}
                    counts = []
                    for _, r in df.iterrows():
                        pat = r["pattern"]
                        if tie:
                            parts = pat.split("|")
                            pat = "|".join(parts[:1] + sorted(parts[1:]))
                        if pat in got:
                            if not tie:
                                viol.append(("duplicate-pattern-row", dict(op=op, m=m, pattern=pat, world=world)))
                            g = got[pat]
                            g[0] += int(r["count"]); g[1] += int(r["GPU kernel duration (us)"]); g[2] += int(r["CPU op duration (us)"])
                        else:
                            got[pat] = [int(r["count"]), int(r["GPU kernel duration (us)"]), int(r["CPU op duration (us)"])]
                        counts.append(int(r["count"]))
                    ctx = dict(op=op, min_pattern_len=m, top_k=k, world=world, got=got, expected=exp)
                    if set(got) != set(exp):
                        extra, missing = set(got) - set(exp), set(exp) - set(got)
                        kind = "pattern-missing" if missing and not extra else "pattern-unexpected" if extra and not missing else "pattern-differs"
                        viol.append((f"{kind}", ctx))
                    else:
                        for p in exp:
                            if got[p][0] != exp[p][0]:
                                viol.append(("count-wrong", ctx))
                            elif got[p][1] != exp[p][1]:
                                viol.append(("gpu-duration-wrong", ctx))
                            elif got[p][2] != exp[p][2]:
                                viol.append(("cpu-duration-wrong", ctx))
                    if not tie and counts != sorted(counts, reverse=True):
                        viol.append(("rows-not-in-descending-count-order", ctx))
    finally:
        htaenv.scratch().drop(d)
    return dict(viol=_dedupe(viol), nontrivial=npat >= 2 or excluded, outcome=(tuple(world["seq"]), npat), execs=execs,
                extra_transitions=execs - 1)


def _dedupe(v):
    seen, out = set(), []
    for s, d in v:
        if s not in seen:
            seen.add(s)
            out.append((s, d))
    return out
