"""C04 - temporal breakdown is an exact partition of the GPU activity span."""
from __future__ import annotations

from typing import Any, Dict, Iterator, List

from mc import ivworlds, nondet, refmodel

ID = "C04"
TECHNIQUE = ("bounded-exhaustive enumeration of device-activity multisets on an integer grid x tie-order "
             "deviations of unstable sorts, real get_temporal_breakdown vs unit-cell reference model")
RULE = ("every multiset (multiplicity<=2, min start = 0) of <=K activities with span in grid G_T (zero length "
        "allowed) x type {computation, communication}; a 4-type slice {computation, communication, memcpy, "
        "sync-on-stream} with <=K4 activities; a file slice (own files, 1 and 2 ranks, reversed file order); "
        "decoded slice (decode_symbol_ids with shortened names called first; a computation kernel whose shortened name reads as a communication kernel); history slice (different traces analysed one after the other in one process); each under N1 tie orders (stable, all-reversed, single-group permutations). non-trivial = idle, "
        "compute and non-compute parts are not all equal to 0 or the whole span")
ASSUMPTIONS = [
    "pandas/numpy primitives are trusted; an unstable sort may return any order of rows with equal keys",
    "device activity = every loaded event with a stream (kernels, copies, stream-level sync records)",
    "percentages are only compared when kernel_time > 0",
]


def bounds(tier: str) -> Dict[str, Any]:
    if tier == "quick":
        return dict(T=4, K=3, K2=4, K4=2, file_K=2, tie_max_dev=1, chunk=64)
    return dict(T=5, K=3, K2=4, K4=3, file_K=3, tie_max_dev=1, chunk=64)


def worlds(tier: str, stats: Dict[str, Any]) -> Iterator[Any]:
    b = bounds(tier)
    T = b["T"]
    base = [(s, e, ty, 0) for (s, e) in ivworlds.spans(T) for ty in "PM"]
    for ms in ivworlds.multisets(base, b["K2"]):
        stats["transitions"] += 1
        if min(i[0] for i in ms) != 0:
            continue
        yield dict(mode="menu", T=T, items=[list(i) for i in ms], ties=len(ms) <= b["K"])
    base4 = [(s, e, ty, 0) for (s, e) in ivworlds.spans(T) for ty in "PMYO"]
    for ms in ivworlds.multisets(base4, b["K4"]):
        stats["transitions"] += 1
        if min(i[0] for i in ms) != 0 or not any(i[2] in "YO" for i in ms):
            continue
        yield dict(mode="menu", T=T, items=[list(i) for i in ms], ties=True)
    for ms in ivworlds.multisets(base4, b["file_K"]):
        if min(i[0] for i in ms) != 0:
            continue
        stats["transitions"] += 2
        yield dict(mode="file", T=T, ranks=[[list(i) for i in ms]], ties=False)
        mir = [[T - i[1], T - i[0], i[2], i[3], i[4]] for i in ms][::-1]
        yield dict(mode="file", T=T, ranks=[[list(i) for i in ms], mir], ties=False)
        if len(ms) == 2:
            stats["transitions"] += 1
            yield dict(mode="file", T=T, ranks=[[list(i) for i in ms]], ties=False, no_corr=True)
            if all(i[1] > i[0] for i in ms):
                # a very long trace (times beyond 2**31 us); computation on the legacy default stream 0
                stats["transitions"] += 2
                yield dict(mode="file", T=T, ranks=[[list(i) for i in ms]], ties=False, scale=2 ** 29 + 3)
                yield dict(mode="file", T=T, ranks=[[list(i) for i in ms]], ties=False, streams={"P": 0})
                # session slice: the same object was used for other analyses before
                for pk in ("cp", "getters"):
                    stats["transitions"] += 1
                    yield dict(mode="file", T=T, ranks=[[list(i) for i in ms]], ties=False, prior=pk)
    # the trace was decoded for display (decode_symbol_ids, shortened names) before the analysis
    base_dec = [(s, e, ty, ni) for (s, e) in ivworlds.spans(T, zero=False) for (ty, ni) in (("P", 4), ("M", 0), ("P", 0))]
    for ms in ivworlds.multisets(base_dec, 2):
        if min(i[0] for i in ms) != 0 or not any(i[3] == 4 for i in ms):
            continue
        stats["transitions"] += 1
        yield dict(mode="file", T=T, ranks=[[list(i) for i in ms]], ties=False, prior_decode=True)
    for seq in ivworlds.history_sequences():
        stats["transitions"] += len(seq)
        yield dict(mode="history", seq=seq)


_MENU = None


def worker_init() -> None:
    nondet.install()


def _menu(T: int):
    global _MENU
    if _MENU is None or _MENU[0] != T:
        _MENU = (T, ivworlds.Menu(T, "PMYO", 1, 2))
    return _MENU[1]


def expected(items) -> Dict[str, Any]:
    busy = refmodel.cells((i[0], i[1]) for i in items)
    comp = refmodel.cells((i[0], i[1]) for i in items if i[2] == "P")
    span = max(i[1] for i in items) - min(i[0] for i in items)
    e = dict(kernel=span, idle=span - len(busy), compute=len(comp), non_compute=len(busy) - len(comp))
    return e


COLS = {"idle": "idle_time(us)", "compute": "compute_time(us)", "non_compute": "non_compute_time(us)",
        "kernel": "kernel_time(us)"}
PCT = {"idle": "idle_time_pctg", "compute": "compute_time_pctg", "non_compute": "non_compute_time_pctg"}


def check(world) -> Dict[str, Any]:
    if world["mode"] == "history":
        # the same analyses on different traces one after the other in this process: every result must still be right
        viol, execs = [], 0
        for k, m in enumerate(world["seq"]):
            r = check(dict(mode="file", T=6, ranks=[[list(i) for i in ivworlds.HISTORY_FAMILY[m]]], ties=False))
            execs += r["execs"]
            viol += [(f"history/{s}", dict(d, position_in_history=k, history=world["seq"])) for s, d in r["viol"]]
        return dict(viol=_dedupe(viol), nontrivial=True, outcome=("history", tuple(world["seq"])), execs=execs, extra_transitions=execs - 1)
    viol: List[Any] = []
    if world["mode"] == "menu":
        per_rank = {0: world["items"]}
        tas = [_menu(world["T"]).sub({0: [world["items"][k] for k in o]})
               for o in ivworlds.row_orders(len(world["items"]))]
    else:
        from mc import htaenv

        per_rank = {r: its for r, its in enumerate(world["ranks"])}
        tas = [htaenv.load_world({r: ivworlds.events_for(its, no_corr=bool(world.get("no_corr")), spread=bool(world.get("prior")),
                                                         scale=world.get("scale", 1), streams=world.get("streams"))
                                  for r, its in per_rank.items()})[0]]
        if world.get("prior"):
            htaenv.prior_session(tas[0], world["prior"])
        if world.get("prior_decode"):
            tas[0].t.decode_symbol_ids(use_shorten_name=True)
    exp = {r: expected(its) for r, its in per_rank.items()}
    if world.get("scale"):
        exp = {r: {k: v * world["scale"] for k, v in e.items()} for r, e in exp.items()}

    def run():
        df = ta.get_temporal_breakdown(visualize=False)
        return {int(row["rank"]): {c: float(row[c]) for c in list(COLS.values()) + list(PCT.values())}
                for _, row in df.iterrows()}

    execs = 0
    outcome = None
    def all_runs():
        nonlocal ta
        for k, ta in enumerate(tas):
            for plan, res in nondet.explore_ties(run, max_dev=1 if (world.get("ties") and k == 0) else 0,
                                                 with_reverse=(k == 0), cap=24):
                yield (plan if k == 0 else ("row-order", plan)), res

    ta = tas[0]
    for plan, res in all_runs():
        execs += 1
        tag = "stable" if plan == "stable" else ("row-order" if isinstance(plan, tuple) else "tie-order")
        if set(res) != set(exp):
            viol.append((f"rank-set/{tag}", dict(plan=plan, got=sorted(res), expected=sorted(exp))))
            continue
        for r, e in exp.items():
            g = res[r]
            for k, c in COLS.items():
                if g[c] != e[k]:
                    viol.append((f"{k}-time-mismatch/{tag}", dict(plan=plan, rank=r, expected=e, got=g)))
            parts = [g[COLS[k]] for k in ("idle", "compute", "non_compute")]
            if min(parts) < 0 or sum(parts) != g[COLS["kernel"]]:
                viol.append((f"not-a-partition/{tag}", dict(plan=plan, rank=r, got=g)))
            if e["kernel"] > 0:
                for k, c in PCT.items():
                    if abs(g[c] - 100.0 * e[k] / e["kernel"]) > 0.005 + 1e-9:
                        viol.append((f"{k}-pctg-mismatch/{tag}", dict(plan=plan, rank=r, expected=e, got=g)))
        if outcome is None:
            outcome = tuple(sorted((r, tuple(sorted(v.items()))) for r, v in exp.items()))
    e0 = exp[0]
    nontrivial = sum(1 for k in ("idle", "compute", "non_compute") if e0[k] > 0) >= 2
    return dict(viol=_dedupe(viol), nontrivial=nontrivial, outcome=outcome, execs=execs,
                extra_transitions=execs - 1)


def _dedupe(v):
    seen, out = set(), []
    for s, d in v:
        if s not in seen:
            seen.add(s)
            out.append((s, d))
    return out
