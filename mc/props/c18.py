"""C18 - trace filters are pure row selections with the documented predicates."""
from __future__ import annotations

import itertools
import re
from typing import Any, Dict, Iterator, List, Optional

ID = "C18"
TECHNIQUE = ("bounded-exhaustive enumeration of event frames (rows over a small alphabet, every row order, "
             "non-monotone ids, duplicates; encoded and decoded names) x every filter with every parameter of a "
             "small domain x every composition up to length 2/3, real filter objects vs per-row Python predicates "
             "and algebraic laws")
RULE = ("frames: the empty frame, every 1-row frame over the full row alphabet (iteration x rank x span x "
        "name/stream/correlation pattern = 108 rows) and every frame of 2..N rows (with repetition, every order) "
        "over a 10-row covering sub-alphabet, each with id labels in a non-monotone order; three representations: "
        "encoded (int ids + symbol table), decoded via s_name/s_cat columns, fully decoded string columns; "
        "filters: Iteration, IterationIndex, FirstIteration, Rank, TimeRange (all (a,b) in G_3), Name (5 patterns), "
        "GPUKernel, CPUOperator (also with a symbol table that knows only one of the two device-level sync names), MemCopyEvent, Composite; laws: output = selected rows (labels, order, cells), input "
        "unchanged, composite = sequential, row-local members commute = intersection, idempotence. "
        "non-trivial = the filter keeps some rows and drops some rows")
ASSUMPTIONS = [
    "an all-empty result may be an empty frame of any shape",
    "IterationIndexFilter on a frame whose only iteration value is -1 is unspecified (whole frame or empty accepted)",
    "without a symbol table GPUKernelFilter/CPUOperatorFilter fall back to stream/correlation only; for those only "
    "purity (sub-frame, rows unchanged, input unmodified) is checked, not the predicate",
]
NAMES = ["aten::add", "kern_a", "Memcpy DtoD (Device -> Device)", "Event Sync"]
CATS = {"aten::add": "cpu_op", "kern_a": "kernel", "Memcpy DtoD (Device -> Device)": "gpu_memcpy", "Event Sync": "cuda_sync"}
NSC = [(0, -1, -1), (0, -1, 3), (1, 7, 3), (1, 7, -1), (2, 7, 4), (3, -1, 5)]  # (name idx, stream, correlation)
ITERS = [-1, 5, 6]
SPANS = [(0, 2), (1, 0), (2, 1)]  # (ts, dur)
SUB = [(-1, 0, (0, 2), NSC[0]), (5, 0, (1, 0), NSC[1]), (5, 1, (2, 1), NSC[2]), (6, 0, (0, 2), NSC[3]),
       (6, 1, (1, 0), NSC[4]), (-1, 1, (2, 1), NSC[5]), (5, 0, (0, 3), NSC[4]), (6, 0, (2, 1), NSC[0]),
       (7, 1, (0, 1), NSC[2]), (5, 0, (0, 2), NSC[5])]
PATTERNS = ["aten", "kern_a", ".*Sync", "Mem|kern", "zzz"]


def bounds(tier: str) -> Dict[str, Any]:
    if tier == "quick":
        return dict(N=3, comp_len=2, comp_rows=2, chunk=8)
    return dict(N=4, comp_len=3, comp_rows=2, chunk=8)


def row(it, rk, span, nsc):
    return [it, rk, span[0], span[1], nsc[0], nsc[1], nsc[2]]


def worlds(tier: str, stats: Dict[str, Any]) -> Iterator[Any]:
    b = bounds(tier)
    yield dict(rows=[], comp=0)
    for it, rk, sp, nsc in itertools.product(ITERS, (0, 1), SPANS, NSC):
        stats["transitions"] += 1
        yield dict(rows=[row(it, rk, sp, nsc)], comp=0)
    sub = [row(*r) for r in SUB]
    for n in range(2, b["N"] + 1):
        for combo in itertools.product(sub, repeat=n):
            stats["transitions"] += 1
            yield dict(rows=[list(r) for r in combo], comp=0)
    for n in range(1, b["comp_rows"] + 1):
        for combo in itertools.product(sub, repeat=n):
            stats["transitions"] += 1
            yield dict(rows=[list(r) for r in combo], comp=b["comp_len"])


# ---------------------------------------------------------------- reference predicates
def pred_for(spec, rows, mode) -> Optional[Any]:
    """returns a function row -> bool, or None when the predicate is not prescribed"""
    k = spec[0]
    if k == "Iteration":
        s = spec[1] if isinstance(spec[1], list) else [spec[1]]
        return lambda r: r[0] in s
    if k in ("IterationIndex", "FirstIteration"):
        idx = [0] if k == "FirstIteration" else (spec[1] if isinstance(spec[1], list) else [spec[1]])
        its = sorted({r[0] for r in rows})
        if its == [-1] or not its:
            return None
        its = [i for i in its if i != -1]
        sel = {v for p, v in enumerate(its) if p in idx}
        return lambda r: r[0] in sel
    if k == "Rank":
        s = spec[1] if isinstance(spec[1], list) else [spec[1]]
        return lambda r: r[1] in s
    if k == "TimeRange":
        a, b_ = spec[1]
        return lambda r: r[2] >= a and r[2] + r[3] <= b_
    if k == "Name":
        pat = re.compile(spec[1])
        return lambda r: pat.match(NAMES[r[4]]) is not None
    if k == "GPU":
        if mode != "enc":
            return None
        return lambda r: (r[5] >= 0 and r[6] >= 0) or NAMES[r[4]] in ("Event Sync", "Context Sync")
    if k == "CPU":
        if mode != "enc":
            return None
        return lambda r: not ((r[5] >= 0 and r[6] >= 0) or NAMES[r[4]] in ("Event Sync", "Context Sync"))
    if k == "MemCopy":
        if mode != "enc":
            return None
        return lambda r: NAMES[r[4]] == spec[1] and CATS[NAMES[r[4]]] == "gpu_memcpy"
    raise ValueError(spec)


ROW_LOCAL = {"Iteration", "Rank", "TimeRange", "Name", "GPU", "CPU", "MemCopy"}


def filter_specs():
    out = [["Iteration", 5], ["Iteration", 7], ["Iteration", [5]], ["Iteration", [5, 6]], ["Iteration", []], ["Iteration", [-1]],
           ["IterationIndex", 0], ["IterationIndex", 1], ["IterationIndex", 2], ["IterationIndex", [0, 1]], ["IterationIndex", [5]],
           ["FirstIteration"], ["Rank", 0], ["Rank", 1], ["Rank", [0, 1]], ["Rank", [2]]]
    out += [["TimeRange", [a, b_]] for a in range(4) for b_ in range(a, 4)]
    out += [["Name", p] for p in PATTERNS]
    out += [["GPU"], ["CPU"], ["MemCopy", NAMES[2]], ["MemCopy", "Memcpy HtoD (Pageable -> Device)"]]
    return out


COMP_SPECS = [["Iteration", [5, 6]], ["IterationIndex", 0], ["IterationIndex", [0, 1]], ["Rank", 0], ["TimeRange", [0, 2]],
              ["TimeRange", [1, 3]], ["Name", "Mem|kern"], ["Name", ".*Sync"], ["GPU"], ["CPU"], ["MemCopy", NAMES[2]]]

_ST = None


def symtab():
    global _ST
    if _ST is None:
        from hta.common.trace_symbol_table import TraceSymbolTable

        _ST = TraceSymbolTable()
        _ST.add_symbols(["unused0", "cuda_sync", NAMES[3], "gpu_memcpy", NAMES[1], "kernel", "Context Sync", NAMES[0],
                         "cpu_op", NAMES[2], "Memcpy HtoD (Pageable -> Device)"])
    return _ST


_ST3 = None


def symtab3():
    """the trace set holds only one of the two device-level sync kinds: no 'Context Sync' symbol at all"""
    global _ST3
    if _ST3 is None:
        from hta.common.trace_symbol_table import TraceSymbolTable

        _ST3 = TraceSymbolTable()
        _ST3.add_symbols([x for x in symtab().get_sym_table() if x != "Context Sync"])
    return _ST3


_ST2 = None


def symtab2():
    """a second table with the same symbols, the same size and another id assignment (another trace of the same program)"""
    global _ST2
    if _ST2 is None:
        from hta.common.trace_symbol_table import TraceSymbolTable

        _ST2 = TraceSymbolTable()
        syms = list(symtab().get_sym_table())
        _ST2.add_symbols(syms[3:] + syms[:3])
    return _ST2


def make_filter(spec):
    from hta.common import trace_filter as tf

    k = spec[0]
    if k == "Iteration":
        return tf.IterationFilter(spec[1])
    if k == "IterationIndex":
        return tf.IterationIndexFilter(spec[1])
    if k == "FirstIteration":
        return tf.FirstIterationFilter()
    if k == "Rank":
        return tf.RankFilter(spec[1])
    if k == "TimeRange":
        return tf.TimeRangeFilter(tuple(spec[1]))
    if k == "Name":
        return tf.NameFilter(spec[1])
    if k == "GPU":
        return tf.GPUKernelFilter()
    if k == "CPU":
        return tf.CPUOperatorFilter()
    if k == "MemCopy":
        return tf.MemCopyEventFilter(spec[1])
    raise ValueError(spec)


def make_frame(rows, mode, st=None):
    import pandas as pd

    st = st or symtab()
    n = len(rows)
    labels = [(7 * i + 3) % 11 + 20 * (i % 2) for i in range(n)]  # distinct, non-monotone
    d = {
        "index": labels,
        "iteration": [r[0] for r in rows], "rank": [r[1] for r in rows], "ts": [r[2] for r in rows],
        "dur": [r[3] for r in rows], "stream": [r[5] for r in rows], "correlation": [r[6] for r in rows],
    }
    names = [NAMES[r[4]] for r in rows]
    cats = [CATS[x] for x in names]
    if mode == "str":
        d["name"], d["cat"] = names, cats
    else:
        d["name"] = [st.sym_index[x] for x in names]
        d["cat"] = [st.sym_index[x] for x in cats]
    df = pd.DataFrame(d, index=pd.Index(labels))
    if n == 0:
        df = df.astype({c: "int64" for c in df.columns if c not in ("name", "cat") or mode != "str"})
    if mode == "sname":
        from hta.common.trace_symbol_table import decode_symbol_id_to_symbol_name

        decode_symbol_id_to_symbol_name(df, st, False)
    return df


def same_rows(out, df_in, keep_pos: List[int]) -> Optional[str]:
    """out must be exactly rows keep_pos of df_in (labels, order, cells)"""
    if len(keep_pos) == 0:
        return None if len(out) == 0 else "rows-returned-for-empty-selection"
    exp = df_in.iloc[keep_pos]
    if list(out.columns) != list(exp.columns):
        return "columns-changed"
    if list(out.index) != list(exp.index):
        return "wrong-rows-or-order"
    if not out.equals(exp):
        for c in exp.columns:
            if list(out[c]) != list(exp[c]):
                return "cell-contents-changed"
        if list(out.dtypes) != list(exp.dtypes):
            return None  # same cells, dtype representation only
        return "cell-contents-changed"
    return None


def apply(spec_or_obj, df, st):
    f = make_filter(spec_or_obj) if isinstance(spec_or_obj, list) else spec_or_obj
    return f(df, st) if st is not None else f(df)


def check(world) -> Dict[str, Any]:
    from hta.common import trace_filter as tf

    viol: List[Any] = []
    rows = world["rows"]
    execs = 0
    nontrivial = False
    outcome = []
    if world["comp"] == 0:
        # device-side predicate with a symbol table that knows only one of the two sync-record names
        st3 = symtab3()
        for spec in (["GPU"], ["CPU"]):
            df = make_frame(rows, "enc", st3)
            before = df.copy(deep=True)
            out = apply(spec, df, st3)
            execs += 1
            keep = [i for i, r in enumerate(rows) if pred_for(spec, rows, "enc")(r)]
            err = same_rows(out, before, keep)
            if err:
                viol.append((f"{err}/{spec[0]}/enc/one-sync-kind-only", dict(spec=spec, rows=rows, kept_labels=list(out.index), expected_pos=keep)))
    for mode in ("enc", "sname", "str"):
        st = symtab() if mode == "enc" else None
        if world["comp"] == 0:
            for spec in filter_specs():
                if mode != "enc" and spec[0] == "MemCopy":
                    continue
                df = make_frame(rows, mode)
                before = df.copy(deep=True)
                out = apply(spec, df, st)
                execs += 1
                tag = f"{spec[0]}/{mode}"
                if not df.equals(before) or list(df.index) != list(before.index) or list(df.columns) != list(before.columns):
                    viol.append((f"input-modified/{tag}", dict(spec=spec, rows=rows)))
                p = pred_for(spec, rows, mode)
                if p is not None:
                    keep = [i for i, r in enumerate(rows) if p(r)]
                    err = same_rows(out, before, keep)
                    if err:
                        viol.append((f"{err}/{tag}", dict(spec=spec, rows=rows, kept_labels=list(out.index), expected_pos=keep)))
                    nontrivial |= 0 < len(keep) < len(rows)
                    if mode == "enc":
                        outcome.append(len(keep))
                else:
                    # purity only: out must be a sub-frame of the input (a subsequence of its rows)
                    pos = {lab: i for i, lab in enumerate(before.index)}
                    labs = list(out.index)
                    if any(lab not in pos for lab in labs) or [pos[x] for x in labs] != sorted(pos[x] for x in labs) or len(set(labs)) != len(labs):
                        viol.append((f"not-a-sub-frame/{tag}", dict(spec=spec, rows=rows)))
                    elif len(labs) and same_rows(out, before, [pos[x] for x in labs]):
                        viol.append((f"cell-contents-changed/{tag}", dict(spec=spec, rows=rows)))
                # one filter object used for two encoded frames that belong to different symbol tables
                if mode == "enc" and spec[0] in ("Name", "MemCopy", "GPU", "CPU") and rows:
                    fobj = make_filter(spec)
                    for which, tab in (("first-table", symtab()), ("second-table", symtab2()), ("first-table-again", symtab())):
                        dfx = make_frame(rows, "enc", tab)
                        outx = fobj(dfx, tab)
                        execs += 1
                        p2 = pred_for(spec, rows, "enc")
                        keep2 = [i for i, r in enumerate(rows) if p2(r)]
                        err2 = same_rows(outx, dfx, keep2)
                        if err2:
                            viol.append((f"filter-object-reused/{err2}/{spec[0]}/{which}", dict(spec=spec, rows=rows)))
                # idempotence for row-local filters
                if spec[0] in ROW_LOCAL and len(out) and list(out.columns) == list(before.columns):
                    out2 = apply(spec, out, st)
                    execs += 1
                    if list(out2.index) != list(out.index) or not out2.equals(out):
                        viol.append((f"not-idempotent/{tag}", dict(spec=spec, rows=rows)))
        else:
            if mode == "str":
                continue
            specs = [s for s in COMP_SPECS if mode == "enc" or s[0] != "MemCopy"]
            for L in range(2, world["comp"] + 1):
                for combo in itertools.product(specs, repeat=L):
                    if L == 3 and len({json_key(c) for c in combo}) < 3:
                        continue
                    df = make_frame(rows, mode)
                    before = df.copy(deep=True)
                    comp = tf.CompositeFilter([make_filter(s) for s in combo])
                    out = apply(comp, df, st)
                    seq = df
                    for s in combo:
                        seq = apply(s, seq, st)
                    execs += 1 + L
                    names = "+".join(s[0] for s in combo)
                    if not df.equals(before):
                        viol.append((f"composite/input-modified/{mode}", dict(combo=combo, rows=rows)))
                    if list(out.index) != list(seq.index) or (len(out) and not out.equals(seq)):
                        viol.append((f"composite/differs-from-sequential/{mode}", dict(combo=combo, rows=rows)))
                    if all(s[0] in ROW_LOCAL for s in combo):
                        preds = [pred_for(s, rows, mode) for s in combo]
                        if all(p is not None for p in preds):
                            keep = [i for i, r in enumerate(rows) if all(p(r) for p in preds)]
                            err = same_rows(out, before, keep)
                            if err:
                                viol.append((f"composite/not-the-intersection/{err}/{mode}", dict(combo=combo, rows=rows)))
                            nontrivial |= 0 < len(keep) < len(rows)
                        rev = apply(tf.CompositeFilter([make_filter(s) for s in combo[::-1]]), df, st)
                        execs += 1
                        if list(rev.index) != list(out.index):
                            viol.append((f"composite/order-dependent/{mode}", dict(combo=combo, rows=rows)))
            outcome.append(len(rows))
    return dict(viol=_dedupe(viol), nontrivial=nontrivial, outcome=tuple(outcome), execs=execs,
                extra_transitions=execs)


def json_key(c):
    return str(c)


def _dedupe(v):
    seen, out = set(), []
    for s, d in v:
        if s not in seen:
            seen.add(s)
            out.append((s, d))
    return out
