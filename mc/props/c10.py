"""C10 - critical-path breakdown conserves the path weight and attributes it correctly."""
from __future__ import annotations

from typing import Any, Dict, Iterator, List

from mc import cpworlds, refmodel

ID = "C10"
TECHNIQUE = ("every graph built from the enumerated stream-model behaviours (see C08): breakdown rows, per-edge "
             "attribution (containment check against the reference events), bound-by classes and summary shares "
             "recomputed independently")
RULE = ("graphs: all C08 worlds (programs x profiles x windows x flag x file orders); on each: one breakdown row per "
        "critical edge, durations add up to the path weight, every span edge of the whole graph attributed to an "
        "existing event on the same thread/stream whose span covers the edge, kernel-kernel delay edges to the "
        "preceding kernel, bound_by per rule, summary shares = per-class sums / total (sum 100). non-trivial = the "
        "path holds edges of at least three bound-by classes")
ASSUMPTIONS = [
    "communication kernel = name matching ^nccl.*Kernel (the alphabet's stream-9 kernels)",
    "summary is compared only when the path weight is positive",
]
CLASS_OF_TYPE = {"critical_path_kernel_kernel_delay": "gpu_kernel_kernel_overhead",
                 "critical_path_kernel_launch_delay": "gpu_kernel_launch_overhead",
                 "critical_path_dependency": "", "critical_path_sync_dependency": ""}


def bounds(tier: str) -> Dict[str, Any]:
    return dict(chunk=8)


def worlds(tier: str, stats: Dict[str, Any]) -> Iterator[Any]:
    yield from cpworlds.worlds(tier, stats)


def check(world) -> Dict[str, Any]:
    from mc import htaenv

    viol: List[Any] = []
    ta, rank, evs, m = cpworlds.load(world)
    rows = refmodel.parse_rows(evs)
    by = {r["id"]: r for r in rows}
    execs = 0
    classes_max = 0
    outcome = []
    # all analyses of the world first, then every graph is examined: a graph must not change because later analyses ran
    for ctx, g in list(cpworlds.graphs_for(world, ta, rank=rank)):
        execs += 1
        nodes = g.node_list
        # attribution of every span / kernel-kernel edge of the graph
        for u, v in g.edges:
            e = g.edges[u, v]["object"]
            att = g.get_event_attribution_for_edge(e)
            ty = e.type.name
            ectx = dict(ctx, edge=str(e), src=str(nodes[u]), dst=str(nodes[v]), attributed=att)
            if ty in ("OPERATOR_KERNEL", "KERNEL_KERNEL_DELAY"):
                if att is None or int(att) not in by:
                    viol.append((f"attribution/edge-attributed-to-no-existing-event/{ty}", ectx))
                    continue
                a = by[int(att)]
                ru = by[int(nodes[u].ev_idx)]
                if ty == "KERNEL_KERNEL_DELAY":
                    if int(att) != int(nodes[u].ev_idx):
                        viol.append(("attribution/kernel-kernel-edge-not-attributed-to-preceding-kernel", ectx))
                    continue
                same = (a["stream"], a["pid"], a["tid"]) == (ru["stream"], ru["pid"], ru["tid"]) if ru["stream"] == -1 else a["stream"] == ru["stream"]
                if not same:
                    viol.append(("attribution/attributed-event-on-other-thread-or-stream", ectx))
                lo, hi = int(nodes[u].ts) + m, int(nodes[v].ts) + m
                if not (a["ts"] <= lo and hi <= a["ts"] + a["dur"]):
                    viol.append(("attribution/attributed-event-does-not-cover-edge", dict(ectx, event_span=(a["ts"] - m, a["ts"] + a["dur"] - m))))
            elif att is not None:
                viol.append((f"attribution/non-span-edge-has-attribution/{ty}", ectx))
        # breakdown
        try:
            bd = g.get_critical_path_breakdown()
        except Exception as ex:
            viol.append((f"breakdown/raises/{type(ex).__name__}", dict(ctx, error=repr(ex)[:200])))
            continue
        crit = list(g.critical_path_edges_set)
        if bd is None or len(bd) != len(crit):
            viol.append(("breakdown/row-count-differs-from-critical-edges", dict(ctx, rows=None if bd is None else len(bd), edges=len(crit))))
            continue
        total = sum(e.weight for e in crit)
        if float(bd["duration"].sum()) != float(total):
            viol.append(("breakdown/durations-do-not-add-up-to-path-weight", dict(ctx, got=float(bd["duration"].sum()), expected=total)))
        # the weight of the reported path as the graph itself weighs it (what the longest-path search maximised)
        pn = list(g.critical_path_nodes)
        total_graph = sum(g.edges[u, v]["weight"] for u, v in zip(pn, pn[1:]))
        if float(bd["duration"].sum()) != float(total_graph):
            viol.append(("breakdown/durations-do-not-add-up-to-the-weight-of-the-path-in-the-graph",
                         dict(ctx, got=float(bd["duration"].sum()), expected=float(total_graph))))
        # rows as multiset (event, duration, type, bound_by)
        exp_rows = []
        for e in crit:
            att = g.get_event_attribution_for_edge(e)
            tv = e.type.value
            if tv in CLASS_OF_TYPE:
                cls = CLASS_OF_TYPE[tv]
            else:
                a = by.get(int(att)) if att is not None else None
                if a is None:
                    cls = "?"
                elif a["stream"] < 0:
                    cls = "cpu_bound"
                elif "ncclKernel" in a["name"] or "ncclDevKernel" in a["name"]:
                    cls = "gpu_communication_bound"
                else:
                    cls = "gpu_compute_bound"
            exp_rows.append((-1 if att is None else int(att), int(e.weight), tv, cls))
        got_rows = []
        for _, r in bd.iterrows():
            ev = r["event_idx"]
            got_rows.append((-1 if ev != ev or ev is None else int(ev), int(r["duration"]), r["type"], r["bound_by"]))
        if sorted(got_rows) != sorted(exp_rows):
            gb = sorted(x[:3] for x in got_rows) == sorted(x[:3] for x in exp_rows)
            viol.append(("breakdown/bound_by-wrong" if gb else "breakdown/rows-differ-from-critical-edges",
                         dict(ctx, got=sorted(got_rows), expected=sorted(exp_rows))))
        classes = {x[3] for x in exp_rows if x[1] > 0}
        classes_max = max(classes_max, len(classes))
        if total > 0:
            try:
                import contextlib, io

                with contextlib.redirect_stdout(io.StringIO()):
                    s = g.summary()
                share = {}
                for x in exp_rows:
                    share[x[3]] = share.get(x[3], 0) + x[1]
                want = {k: 100.0 * v / total for k, v in share.items()}
                got = {str(k): float(v) for k, v in s.items()}
                if set(got) != set(want) or any(abs(got[k] - want[k]) > 1e-6 for k in want):
                    viol.append(("summary/shares-wrong", dict(ctx, got=got, expected=want)))
                if abs(sum(got.values()) - 100.0) > 1e-6:
                    viol.append(("summary/does-not-add-up-to-100", dict(ctx, got=got)))
            except Exception as ex:
                viol.append((f"summary/raises/{type(ex).__name__}", dict(ctx, error=repr(ex)[:200])))
        outcome.append((total, tuple(sorted(classes))))
    return dict(viol=_dedupe(viol), nontrivial=classes_max >= 3, outcome=tuple(outcome), execs=execs, extra_transitions=execs - 1)


def _dedupe(v):
    seen, out = set(), []
    for s, d in v:
        if s not in seen:
            seen.add(s)
            out.append((s, d))
    return out
