"""Reference semantics: plain Python over lists/dicts/Fractions. No pandas, no networkx.

Everything is deliberately naive (unit-cell counting, linear scans) so that it is obviously
right on the small integer grids the explorer uses.
"""
from __future__ import annotations

import math
from fractions import Fraction
from typing import Any, Dict, Iterable, List, Optional, Sequence, Set, Tuple

SYNC_DEVICE_NAMES = ("Event Sync", "Context Sync")


# ------------------------------------------------------------------ parsing
def parse_rows(events: Sequence[Dict[str, Any]]) -> List[Dict[str, Any]]:
    """Rows HTA must produce for a traceEvents list: one per complete event (has dur and cat,
    cat != 'Trace'), identified by its position in the list."""
    rows = []
    for i, e in enumerate(events):
        if e.get("dur") is None or e.get("cat") is None or e.get("cat") == "Trace":
            continue
        a = e.get("args") if isinstance(e.get("args"), dict) else {}
        rows.append(dict(id=i, name=e["name"], cat=e["cat"], pid=e["pid"], tid=e["tid"],
                         ts=e["ts"], dur=e["dur"], stream=_int(a.get("stream", -1)),
                         corr=a.get("correlation", -1), args=a))
    return rows


def _int(v):
    try:
        return int(v)
    except (ValueError, TypeError):
        return -1


def is_device_side(r: Dict[str, Any]) -> bool:
    return (r["stream"] >= 0 and r["corr"] >= 0) or r["name"] in SYNC_DEVICE_NAMES


def links(rows: Sequence[Dict[str, Any]]) -> Dict[int, int]:
    """id -> linked id | 0 | -1 (property C02)."""
    out = {}
    for r in rows:
        if r["corr"] == -1:
            out[r["id"]] = -1
            continue
        side = is_device_side(r)
        partners = [q["id"] for q in rows if q["corr"] == r["corr"] and q["id"] != r["id"]
                    and is_device_side(q) != side]
        out[r["id"]] = partners[0] if len(partners) == 1 else (0 if not partners else None)
    return out


# ------------------------------------------------------------------ interval measures
def cells(spans: Iterable[Tuple[int, int]]) -> Set[int]:
    """unit cells [t, t+1) covered by the union of integer spans [s, e)"""
    out: Set[int] = set()
    for s, e in spans:
        out.update(range(s, e))
    return out
