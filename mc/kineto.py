"""Event templates -> Kineto trace dicts -> files.

Shapes are copied from tests/data/critical_path/*.  Everything is plain data so a world can be
dumped into a replay file and rebuilt without the explorer.
"""
from __future__ import annotations

import gzip
import json
import os
import shutil
import tempfile
from typing import Any, Dict, List, Optional

HOST_PID = 100
MAIN_TID = 100
DEV_PID = 0


def X(cat, name, pid, tid, ts, dur, args=None) -> Dict[str, Any]:
    e = {"ph": "X", "cat": cat, "name": name, "pid": pid, "tid": tid, "ts": ts, "dur": dur}
    if args is not None:
        e["args"] = args
    return e


def cpu_op(name, ts, dur, tid=MAIN_TID, pid=HOST_PID, ext=None):
    a = {"External id": ext} if ext is not None else {}
    return X("cpu_op", name, pid, tid, ts, dur, a)


def annotation(name, ts, dur, tid=MAIN_TID, pid=HOST_PID):
    return X("user_annotation", name, pid, tid, ts, dur, {})


def step(k, ts, dur, tid=MAIN_TID, pid=HOST_PID):
    return annotation(f"ProfilerStep#{k}", ts, dur, tid, pid)


def runtime(name, ts, dur, corr, tid=MAIN_TID, pid=HOST_PID):
    return X("cuda_runtime", name, pid, tid, ts, dur,
             {"External id": corr, "cbid": 211, "correlation": corr})


def kernel(name, ts, dur, stream, corr, cat="kernel", extra=None):
    a = {"External id": corr, "device": 0, "context": 1, "stream": stream, "correlation": corr}
    if extra:
        a.update(extra)
    return X(cat, name, DEV_PID, stream, ts, dur, a)


def memcpy(name, ts, dur, stream, corr, bw=None, nbytes=1):
    extra = {"bytes": nbytes}
    if bw is not None:
        extra["memory bandwidth (GB/s)"] = bw
    return kernel(name, ts, dur, stream, corr, cat="gpu_memcpy", extra=extra)


def memset(name, ts, dur, stream, corr):
    return kernel(name, ts, dur, stream, corr, cat="gpu_memset", extra={"bytes": 1})


def gpu_annotation(name, ts, dur, stream):
    return X("gpu_user_annotation", name, DEV_PID, stream, ts, dur,
             {"External id": 1, "device": 0, "context": 1, "stream": stream})


def cuda_sync(name, ts, dur, stream, corr, extra=None):
    a = {"External id": corr, "cuda_sync_kind": name, "stream": stream, "correlation": corr,
         "device": 0, "context": 1}
    if extra:
        a.update(extra)
    return X("cuda_sync", name, DEV_PID, stream, ts, dur, a)


def meta_event(ts=0, pid=HOST_PID):
    return {"name": "process_name", "ph": "M", "ts": ts, "pid": pid, "tid": 0,
            "args": {"name": "python3.10"}}


def flow(ph, fid, pid, tid, ts):
    e = {"ph": ph, "id": fid, "pid": pid, "tid": tid, "ts": ts, "cat": "ac2g", "name": "ac2g"}
    if ph == "f":
        e["bp"] = "e"
    return e


def instant(ts):
    return {"name": "Iteration Start: PyTorch Profiler", "ph": "i", "s": "g", "pid": "Traces",
            "tid": "Trace PyTorch Profiler", "ts": ts}


def trace_span(ts, dur):
    return X("Trace", "PyTorch Profiler (0)", "Spans", "PyTorch Profiler", ts, dur, {"Op count": 0})


def trace_dict(events: List[Dict[str, Any]], rank: Optional[int] = 0,
               extra_meta: Optional[Dict[str, Any]] = None) -> Dict[str, Any]:
    d: Dict[str, Any] = {"schemaVersion": 1}
    if rank is not None:
        d["distributedInfo"] = {"rank": rank}
    if extra_meta:
        d.update(extra_meta)
    d["traceName"] = "w.json"
    d["traceEvents"] = events
    return d


def write_file(path: str, d: Dict[str, Any]) -> None:
    if path.endswith(".gz"):
        with gzip.open(path, "wt") as fp:
            json.dump(d, fp, indent=2)
    else:
        with open(path, "w") as fp:
            json.dump(d, fp, indent=2)


def read_any(path: str) -> Dict[str, Any]:
    """Read a trace file whatever its name says (HTA's write_raw_trace always gzips)."""
    with open(path, "rb") as fh:
        magic = fh.read(2)
    if magic == b"\x1f\x8b":
        with gzip.open(path, "rt") as fp:
            return json.load(fp)
    with open(path) as fp:
        return json.load(fp)


class Scratch:
    """A private scratch directory, emptied between worlds, removed at exit."""

    def __init__(self) -> None:
        base = "/dev/shm" if os.path.isdir("/dev/shm") and os.access("/dev/shm", os.W_OK) else None
        self.root = tempfile.mkdtemp(prefix=f"htamc_{os.getpid()}_", dir=base)
        self.n = 0

    def fresh(self) -> str:
        self.n += 1
        d = os.path.join(self.root, f"w{self.n}")
        os.makedirs(d)
        return d

    def drop(self, d: str) -> None:
        shutil.rmtree(d, ignore_errors=True)

    def close(self) -> None:
        shutil.rmtree(self.root, ignore_errors=True)


def sweep_stale_scratch() -> int:
    """remove scratch roots whose owning process is gone (pool workers leave through os._exit, so their atexit
    handlers never run)"""
    base = "/dev/shm" if os.path.isdir("/dev/shm") else tempfile.gettempdir()
    n = 0
    for name in os.listdir(base):
        if not name.startswith("htamc_"):
            continue
        parts = name.split("_")
        try:
            pid = int(parts[1])
            os.kill(pid, 0)
            continue            # owner still alive
        except (ValueError, IndexError, ProcessLookupError):
            pass
        except PermissionError:
            continue
        shutil.rmtree(os.path.join(base, name), ignore_errors=True)
        n += 1
    return n


def write_world(d: str, ranks: Dict[int, List[Dict[str, Any]]], fmt: str = "json",
                extra_meta: Optional[Dict[str, Any]] = None) -> Dict[int, str]:
    """ranks: rank -> event list. Returns rank -> path."""
    out = {}
    for r, evs in ranks.items():
        p = os.path.join(d, f"rank{r}.{fmt}")
        write_file(p, trace_dict(evs, r, extra_meta))
        out[r] = p
    return out
