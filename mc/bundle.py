"""Canonical result bundle of the public getters (ids replaced by strings, rows keyed by natural keys,
sorted), used to compare runs that must be observationally equivalent (C11)."""
from __future__ import annotations

import math
from typing import Any, Dict, List


def _f(x):
    try:
        if x is None:
            return None
        x = float(x)
        if math.isnan(x):
            return "nan"
        if math.isinf(x):
            return "inf" if x > 0 else "-inf"
        return round(x, 6)
    except (TypeError, ValueError):
        return str(x)


def _rows(df, cols=None) -> List[List[Any]]:
    if df is None:
        return []
    cols = cols or list(df.columns)
    out = [[(_f(v) if not isinstance(v, str) else v) for v in row] for row in df[cols].itertuples(index=False, name=None)]
    return sorted(out, key=lambda r: [str(x) for x in r])


def trace_rows(t) -> Dict[str, Any]:
    st = t.symbol_table.get_sym_table()
    out = {}
    for r in sorted(t.traces):
        df = t.traces[r]
        rows = []
        for i, row in df.iterrows():
            rows.append([int(row["index"]), st[int(row["name"])], st[int(row["cat"])], int(row["ts"]), int(row["dur"]),
                         int(row["stream"]), int(row["correlation"]), int(row["index_correlation"]), int(row["iteration"])])
        out[str(r)] = sorted(rows)
    return out


def bundle(ta, with_cp: bool = False) -> Dict[str, Any]:
    t = ta.t
    ranks = sorted(t.traces)
    b: Dict[str, Any] = {"rows": trace_rows(t)}
    sym = t.symbol_table
    b["symtab_bijective"] = all(sym.sym_index[s] == i for i, s in enumerate(sym.sym_table)) and len(sym.sym_index) == len(sym.sym_table)
    b["symbols"] = sorted(sym.sym_table)

    def attempt(name, fn):
        try:
            b[name] = fn()
        except Exception as ex:  # the same exception must then occur in every equivalent run
            b[name] = "EXC:" + type(ex).__name__

    attempt("temporal", lambda: _rows(ta.get_temporal_breakdown(visualize=False)))
    attempt("overlap", lambda: _rows(ta.get_comm_comp_overlap(visualize=False)))

    def kb():
        kt, ak = ta.get_gpu_kernel_breakdown(visualize=False, num_kernels=2, duration_ratio=0.8)
        return [_rows(kt), _rows(ak)]

    attempt("kernel_breakdown", kb)
    attempt("idle", lambda: _rows(ta.get_idle_time_breakdown(ranks=ranks, visualize=False, consecutive_kernel_delay=2)[0]))
    attempt("queue", lambda: {str(r): [[int(a), int(s), int(q)] for a, s, q in zip(df["ts"], df["stream"], df["queue_length"])]
                              for r, df in ta.get_queue_length_time_series(ranks).items()})
    attempt("membw", lambda: {str(r): _rows(df) for r, df in ta.get_memory_bw_time_series(ranks).items()})
    attempt("launch", lambda: {str(r): _rows(df) for r, df in ta.get_cuda_kernel_launch_stats(ranks=ranks, visualize=False).items()})
    attempt("iterations", lambda: {str(r): [int(x) for x in t.get_iterations(r)] for r in ranks})
    attempt("anno", lambda: _rows(ta.get_gpu_user_annotation_breakdown(visualize=False, num_kernels=2)))
    def gka():
        out = {}
        for r in ranks:
            df = ta.get_gpu_kernels_with_user_annotations(r, expand_names=True, shortern_names=False)
            out[str(r)] = None if df is None else _rows(df, [c for c in ("index", "s_name", "s_user_annotation", "ts", "dur") if c in df.columns])
        return out

    attempt("kernels_with_annotations", gka)
    attempt("queue_summary", lambda: _rows(ta.get_queue_length_summary(ranks).reset_index()))
    attempt("membw_summary", lambda: _rows(ta.get_memory_bw_summary(ranks).reset_index()))
    attempt("profiler_steps", lambda: [int(x) for x in ta.get_profiler_steps()])
    attempt("cpu_anno", lambda: _rows(ta.get_gpu_user_annotation_breakdown(use_gpu_annotation=False, visualize=False, num_kernels=2)))

    def freq():
        import tempfile, shutil
        d = tempfile.mkdtemp(prefix="htafreq_")
        try:
            return {op: _rows(ta.get_frequent_cuda_kernel_sequences(op, d, min_pattern_len=1, rank=ranks[0], top_k=5, visualize=False))
                    for op in ("aten::op0", "aten::op1")}
        finally:
            shutil.rmtree(d, ignore_errors=True)

    attempt("frequent_sequences", freq)
    if with_cp:
        def cp():
            out = {}
            for r in ranks:
                import contextlib, io

                g, ok = ta.critical_path_analysis(rank=r, annotation="", instance_id=None)
                with contextlib.redirect_stdout(io.StringIO()):
                    summ = g.summary() if ok else None
                out[str(r)] = [bool(ok), _rows(summ.to_frame().reset_index()) if ok else None,
                               len(g.critical_path_nodes) if ok else None]
            return out
        attempt("critical_path", cp)
    return b
