"""Laminar span families up to order-isomorphism (endpoints dense-ranked to 0..k)."""
from __future__ import annotations

import itertools
from typing import Iterator, List, Tuple

Span = Tuple[int, int]


def crossing(a: Span, b: Span) -> bool:
    (s1, e1), (s2, e2) = a, b
    return (s1 < s2 < e1 < e2) or (s2 < s1 < e2 < e1)


def families(n: int) -> Iterator[List[Span]]:
    """every multiset of n spans (s<=e) that is laminar and whose endpoint set is exactly {0..k}"""
    M = 2 * n - 1
    spans = [(s, e) for s in range(M + 1) for e in range(s, M + 1)]

    def rec(start: int, acc: List[Span]):
        if len(acc) == n:
            pts = sorted({p for sp in acc for p in sp})
            if pts == list(range(len(pts))):
                yield list(acc)
            return
        for i in range(start, len(spans)):
            sp = spans[i]
            if any(crossing(sp, q) for q in acc):
                continue
            acc.append(sp)
            yield from rec(i, acc)
            acc.pop()

    yield from rec(0, [])


def ref_parents(events: List[Tuple[int, int, int]]):
    """events: (id, s, e). Returns (parent of positive events, constraints for zero events, depth of positive events).
    parent = innermost positive-duration event whose span contains the event; identical spans nest by ascending id;
    -1 = root."""
    pos = [ev for ev in events if ev[2] > ev[1]]
    parent = {}
    for (i, s, e) in pos:
        cands = []
        for (j, s2, e2) in pos:
            if j == i:
                continue
            if s2 <= s and e <= e2:
                if (s2, e2) == (s, e) and j > i:
                    continue  # identical span with larger id is nested inside, not around
                cands.append((e2 - s2, -j, j))
        parent[i] = min(cands)[2] if cands else -1
    depth = {}
    for (i, s, e) in pos:
        d, p = 0, parent[i]
        while p != -1:
            d += 1
            p = parent[p]
        depth[i] = d
    return parent, depth
