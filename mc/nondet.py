"""Seams that give the explorer ownership of HTA's sources of nondeterminism.

N1  tie order of unstable sorts (DataFrame.sort_values with one key and no stable kind, called from
    hta.*).  NumPy's default quicksort gives no stability guarantee (its SIMD sorts reorder equal
    keys for small inputs), so any order of rows whose *whole* key is equal is a legal answer.
    The seam sorts stably, then applies an explorer-chosen permutation inside tie groups.
"""
from __future__ import annotations

import itertools
import sys
from typing import Any, Dict, List, Optional, Tuple

import numpy as np
import pandas as pd

_ORIG_DF_SORT = pd.DataFrame.sort_values


class TieController:
    """plan: 'stable' | 'reverse' (every tie group reversed) | {(call_idx, group_idx): perm}"""

    def __init__(self) -> None:
        self.active = False
        self.plan: Any = "stable"
        self.ncalls = 0
        self.groups: List[Tuple[int, int, int]] = []  # (call_idx, group_idx, size)
        self.sites: Dict[int, str] = {}

    def begin(self, plan: Any = "stable") -> None:
        self.active = True
        self.plan = plan
        self.ncalls = 0
        self.groups = []
        self.sites = {}

    def end(self) -> None:
        self.active = False


CTL = TieController()
CAP_HITS = [0]   # number of worlds on which the per-world cap on tie-order plans was reached (reported in the evidence)


def _is_hta_caller(depth: int = 2) -> Optional[str]:
    f = sys._getframe(depth)
    mod = f.f_globals.get("__name__", "")
    if mod.startswith("hta."):
        return f"{mod}:{f.f_code.co_name}"
    return None


def _sort_values(self, by=None, *args, **kw):
    if not CTL.active:
        return _ORIG_DF_SORT(self, by, *args, **kw)
    site = _is_hta_caller()
    kind = kw.get("kind", "quicksort")
    single = isinstance(by, str) or (isinstance(by, (list, tuple)) and len(by) == 1)
    if site is None or args or not single or kind in ("stable", "mergesort") or kw.get("key") is not None \
            or kw.get("axis", 0) not in (0, "index"):
        return _ORIG_DF_SORT(self, by, *args, **kw)
    inplace = kw.pop("inplace", False)
    ignore_index = kw.pop("ignore_index", False)
    kw["kind"] = "stable"
    res = _ORIG_DF_SORT(self, by, inplace=False, ignore_index=False, **kw)
    col = by if isinstance(by, str) else by[0]
    vals = res[col].to_numpy()
    n = len(vals)
    call_idx = CTL.ncalls
    CTL.ncalls += 1
    CTL.sites[call_idx] = site
    order = np.arange(n)
    g = 0
    i = 0
    changed = False
    while i < n:
        j = i + 1
        while j < n and (vals[j] == vals[i] or (vals[j] != vals[j] and vals[i] != vals[i])):
            j += 1
        if j - i >= 2:
            CTL.groups.append((call_idx, g, j - i))
            perm = None
            if CTL.plan == "reverse":
                perm = list(range(j - i - 1, -1, -1))
            elif isinstance(CTL.plan, dict):
                perm = CTL.plan.get((call_idx, g))
            if perm is not None:
                if len(perm) != j - i:
                    raise RuntimeError(f"N1 replay divergence: tie group {(call_idx, g)} has size {j - i}, plan has {len(perm)}")
                order[i:j] = i + np.asarray(perm)
                changed = True
            g += 1
        i = j
    if changed:
        res = res.iloc[order]
    if ignore_index:
        res = res.reset_index(drop=True)
    if inplace:
        return self._update_inplace(res)
    return res


def install() -> None:
    if pd.DataFrame.sort_values is not _sort_values:
        pd.DataFrame.sort_values = _sort_values


def perms_for(size: int) -> List[List[int]]:
    """non-identity orders tried for one tie group: all perms up to size 3, else reversal + adjacent swaps"""
    ident = list(range(size))
    if size <= 3:
        return [list(p) for p in itertools.permutations(ident) if list(p) != ident]
    out = [ident[::-1]]
    for k in range(size - 1):
        p = ident[:]
        p[k], p[k + 1] = p[k + 1], p[k]
        out.append(p)
    return out


def explore_ties(run, max_dev: int = 1, with_reverse: bool = True, cap: int = 64):
    """Deviation-bounded exploration of tie orders.  run() executes the code under test once and
    returns its observable result.  Yields (plan, result) for the stable order, the all-reversed
    order and every plan with at most max_dev deviating tie groups (cap = max plans per world;
    reports whether the cap was hit)."""
    install()
    CTL.begin("stable")
    try:
        base = run()
    finally:
        CTL.end()
    groups = list(CTL.groups)
    yield "stable", base
    if not groups:
        return
    if with_reverse:
        CTL.begin("reverse")
        try:
            r = run()
        finally:
            CTL.end()
        yield "reverse", r
    n = 0
    if max_dev >= 1:
        for (c, g, size) in groups:
            for p in perms_for(size):
                if size == 2 and len(groups) == 1 and with_reverse:
                    continue  # identical to 'reverse'
                if n >= cap:
                    CAP_HITS[0] += 1
                    return
                n += 1
                plan = {(c, g): p}
                CTL.begin(plan)
                try:
                    r = run()
                finally:
                    CTL.end()
                yield {f"{c}.{g}": p}, r
    if max_dev >= 2:
        for (a, b) in itertools.combinations(groups, 2):
            for pa in perms_for(a[2])[:1]:
                for pb in perms_for(b[2])[:1]:
                    if n >= cap:
                        CAP_HITS[0] += 1
                        return
                    n += 1
                    plan = {(a[0], a[1]): pa, (b[0], b[1]): pb}
                    CTL.begin(plan)
                    try:
                        r = run()
                    finally:
                        CTL.end()
                    yield {f"{a[0]}.{a[1]}": pa, f"{b[0]}.{b[1]}": pb}, r


# ---------------------------------------------------------------------------------------------
# N2  symbol numbering.  _compress_df feeds TraceSymbolTable.add_symbols a *set*; its iteration
#     order is the interpreter's string-hash order (PYTHONHASHSEED).  The seam hands the set over in
#     an explorer-chosen order; enumerating all n! orders is a superset of what any seed can produce.
class SymbolOrderController:
    def __init__(self) -> None:
        self.active = False
        self.plan: Dict[Any, Any] = {}
        self.seen: List[Tuple[str, ...]] = []

    def begin(self, plan=None) -> None:
        """plan: {sorted-symbol-tuple: permutation (list of positions into the sorted tuple)} | 'reverse' | None"""
        self.active = True
        self.plan = plan or {}
        self.seen = []

    def end(self) -> None:
        self.active = False


SYM = SymbolOrderController()
_ORIG_ADD = None


def install_symbol_seam() -> None:
    global _ORIG_ADD
    from hta.common.trace_symbol_table import TraceSymbolTable

    if _ORIG_ADD is not None:
        return
    _ORIG_ADD = TraceSymbolTable.add_symbols

    def add_symbols(self, symbols):
        if SYM.active and isinstance(symbols, (set, frozenset)):
            base = tuple(sorted(symbols))
            SYM.seen.append(base)
            if SYM.plan == "reverse":
                symbols = list(base[::-1])
            else:
                perm = SYM.plan.get(base) if isinstance(SYM.plan, dict) else None
                symbols = [base[i] for i in perm] if perm is not None else list(base)
        return _ORIG_ADD(self, symbols)

    TraceSymbolTable.add_symbols = add_symbols


# ---------------------------------------------------------------------------------------------
# N3  worker scheduling.  A virtual multiprocessing module: Pool.map & friends run the *real*
#     callables in this process, each virtual worker on its own deep copy of the callable (a forked
#     worker's private copy), in an explorer-chosen completion order; a Manager().Queue() whose
#     content is an explorer-chosen interleaving of the workers' put sequences.
import copy as _copy


class VirtualQueue:
    def __init__(self) -> None:
        self.items: List[Any] = []

    def put(self, x) -> None:
        self.items.append(x)

    def get(self):
        return self.items.pop(0)

    def empty(self) -> bool:
        return not self.items


class _Recorder:
    """stands in for the shared queue inside one virtual worker: records that worker's puts"""

    def __init__(self) -> None:
        self.items: List[Any] = []

    def put(self, x) -> None:
        self.items.append(x)


class VirtualMP:
    """drop-in for the `mp` name of an hta module.
    schedule: for Pool.map a permutation of task indices (completion order) + number of workers;
              for queue interleavings a list of worker indices (which worker's next put goes first)."""

    def __init__(self, completion=None, workers=None, merge=None) -> None:
        self.completion = completion
        self.workers = workers
        self.merge = merge
        self.log: Dict[str, Any] = {}
        self._queues: List[VirtualQueue] = []

    def cpu_count(self) -> int:
        return 16

    def Manager(self):
        outer = self

        class _M:
            def Queue(self_inner):
                q = VirtualQueue()
                outer._queues.append(q)
                return q

        return _M()

    def get_context(self, kind="fork"):
        return self

    def Pool(self, n=None):
        return _VPool(self, n or 1)


class _VPool:
    def __init__(self, vmp: VirtualMP, n: int) -> None:
        self.vmp = vmp
        self.n = n

    def __enter__(self):
        return self

    def __exit__(self, *a):
        return False

    def close(self):
        pass

    def join(self):
        pass

    def terminate(self):
        pass

    def _run(self, fn, tasks):
        vmp = self.vmp
        tasks = list(tasks)
        order = list(vmp.completion) if vmp.completion is not None else list(range(len(tasks)))
        if sorted(order) != list(range(len(tasks))):
            raise RuntimeError(f"N3 replay divergence: {len(tasks)} tasks, schedule {order}")
        nw = min(self.n, vmp.workers or self.n, len(tasks)) or 1
        vmp.log["tasks"] = len(tasks)
        vmp.log["pool_size"] = self.n
        shared = [q for q in vmp._queues if getattr(fn, "queue", None) is q]
        worker_fn = []
        recs = []
        for w in range(nw):
            f = _copy.deepcopy(fn) if not shared else _copy.copy(fn)
            if shared:
                rec = _Recorder()
                f.queue = rec
                recs.append(rec)
            worker_fn.append(f)
        results: Dict[int, Any] = {}
        done_order = []
        # tasks are dealt to workers round-robin in completion order: the k-th task to finish ran on worker k % nw
        for k, ti in enumerate(order):
            results[ti] = worker_fn[k % nw](tasks[ti])
            done_order.append(ti)
        if shared:
            seqs = [list(r.items) for r in recs]
            merge = vmp.merge
            if merge is None:
                merge = [w for w, s in enumerate(seqs) for _ in s]
            pos = [0] * len(seqs)
            if sorted(merge) != sorted(w for w, s in enumerate(seqs) for _ in s):
                raise RuntimeError("N3 replay divergence: merge schedule does not match the put sequences")
            for w in merge:
                shared[0].put(seqs[w][pos[w]])
                pos[w] += 1
            vmp.log["put_seqs"] = seqs
        return results, done_order

    def map(self, fn, tasks, chunksize=None):
        res, _ = self._run(fn, tasks)
        return [res[i] for i in range(len(res))]

    def imap(self, fn, tasks, chunksize=None):
        return iter(self.map(fn, tasks))

    def imap_unordered(self, fn, tasks, chunksize=None):
        res, done = self._run(fn, tasks)
        return iter([res[i] for i in done])

    def starmap(self, fn, tasks, chunksize=None):
        return self.map(lambda a: fn(*a), tasks)


def merges(lengths: List[int]):
    """all interleavings of sequences with the given lengths, as lists of sequence indices"""
    total = sum(lengths)
    out: List[List[int]] = []

    def rec(rem, acc):
        if len(acc) == total:
            out.append(list(acc))
            return
        for i, r in enumerate(rem):
            if r:
                rem[i] -= 1
                acc.append(i)
                rec(rem, acc)
                acc.pop()
                rem[i] += 1

    rec(list(lengths), [])
    return out
