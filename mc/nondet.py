"""Seams that give the explorer ownership of HTA's sources of nondeterminism.

N1  tie order of unstable sorts (DataFrame.sort_values with one key and no stable kind, called from
    hta.*).  NumPy's default quicksort gives no stability guarantee (its SIMD sorts reorder equal
    keys for small inputs), so any order of rows whose *whole* key is equal is a legal answer.
    The seam sorts stably, then applies an explorer-chosen permutation inside tie groups.
"""
from __future__ import annotations

import itertools
import sys
from typing import Any, Dict, List, Optional, Tuple

import numpy as np
import pandas as pd

_ORIG_DF_SORT = pd.DataFrame.sort_values


class TieController:
    """plan: 'stable' | 'reverse' (every tie group reversed) | {(call_idx, group_idx): perm}"""

    def __init__(self) -> None:
        self.active = False
        self.plan: Any = "stable"
        self.ncalls = 0
        self.groups: List[Tuple[int, int, int]] = []  # (call_idx, group_idx, size)
        self.sites: Dict[int, str] = {}

    def begin(self, plan: Any = "stable") -> None:
        self.active = True
        self.plan = plan
        self.ncalls = 0
        self.groups = []
        self.sites = {}

    def end(self) -> None:
        self.active = False


CTL = TieController()


def _is_hta_caller(depth: int = 2) -> Optional[str]:
    f = sys._getframe(depth)
    mod = f.f_globals.get("__name__", "")
    if mod.startswith("hta."):
        return f"{mod}:{f.f_code.co_name}"
    return None


def _sort_values(self, by=None, *args, **kw):
    if not CTL.active:
        return _ORIG_DF_SORT(self, by, *args, **kw)
    site = _is_hta_caller()
    kind = kw.get("kind", "quicksort")
    single = isinstance(by, str) or (isinstance(by, (list, tuple)) and len(by) == 1)
    if site is None or args or not single or kind in ("stable", "mergesort") or kw.get("key") is not None \
            or kw.get("axis", 0) not in (0, "index"):
        return _ORIG_DF_SORT(self, by, *args, **kw)
    inplace = kw.pop("inplace", False)
    ignore_index = kw.pop("ignore_index", False)
    kw["kind"] = "stable"
    res = _ORIG_DF_SORT(self, by, inplace=False, ignore_index=False, **kw)
    col = by if isinstance(by, str) else by[0]
    vals = res[col].to_numpy()
    n = len(vals)
    call_idx = CTL.ncalls
    CTL.ncalls += 1
    CTL.sites[call_idx] = site
    order = np.arange(n)
    g = 0
    i = 0
    changed = False
    while i < n:
        j = i + 1
        while j < n and (vals[j] == vals[i] or (vals[j] != vals[j] and vals[i] != vals[i])):
            j += 1
        if j - i >= 2:
            CTL.groups.append((call_idx, g, j - i))
            perm = None
            if CTL.plan == "reverse":
                perm = list(range(j - i - 1, -1, -1))
            elif isinstance(CTL.plan, dict):
                perm = CTL.plan.get((call_idx, g))
            if perm is not None:
                if len(perm) != j - i:
                    raise RuntimeError(f"N1 replay divergence: tie group {(call_idx, g)} has size {j - i}, plan has {len(perm)}")
                order[i:j] = i + np.asarray(perm)
                changed = True
            g += 1
        i = j
    if changed:
        res = res.iloc[order]
    if ignore_index:
        res = res.reset_index(drop=True)
    if inplace:
        return self._update_inplace(res)
    return res


def install() -> None:
    if pd.DataFrame.sort_values is not _sort_values:
        pd.DataFrame.sort_values = _sort_values


def perms_for(size: int) -> List[List[int]]:
    """non-identity orders tried for one tie group: all perms up to size 3, else reversal + adjacent swaps"""
    ident = list(range(size))
    if size <= 3:
        return [list(p) for p in itertools.permutations(ident) if list(p) != ident]
    out = [ident[::-1]]
    for k in range(size - 1):
        p = ident[:]
        p[k], p[k + 1] = p[k + 1], p[k]
        out.append(p)
    return out


def explore_ties(run, max_dev: int = 1, with_reverse: bool = True, cap: int = 64):
    """Deviation-bounded exploration of tie orders.  run() executes the code under test once and
    returns its observable result.  Yields (plan, result) for the stable order, the all-reversed
    order and every plan with at most max_dev deviating tie groups (cap = max plans per world;
    reports whether the cap was hit)."""
    install()
    CTL.begin("stable")
    try:
        base = run()
    finally:
        CTL.end()
    groups = list(CTL.groups)
    yield "stable", base
    if not groups:
        return
    if with_reverse:
        CTL.begin("reverse")
        try:
            r = run()
        finally:
            CTL.end()
        yield "reverse", r
    n = 0
    if max_dev >= 1:
        for (c, g, size) in groups:
            for p in perms_for(size):
                if size == 2 and len(groups) == 1 and with_reverse:
                    continue  # identical to 'reverse'
                if n >= cap:
                    return
                n += 1
                plan = {(c, g): p}
                CTL.begin(plan)
                try:
                    r = run()
                finally:
                    CTL.end()
                yield {f"{c}.{g}": p}, r
    if max_dev >= 2:
        for (a, b) in itertools.combinations(groups, 2):
            for pa in perms_for(a[2])[:1]:
                for pb in perms_for(b[2])[:1]:
                    if n >= cap:
                        return
                    n += 1
                    plan = {(a[0], a[1]): pa, (b[0], b[1]): pb}
                    CTL.begin(plan)
                    try:
                        r = run()
                    finally:
                        CTL.end()
                    yield {f"{a[0]}.{a[1]}": pa, f"{b[0]}.{b[1]}": pb}, r
