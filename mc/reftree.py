"""Reference call tree of one rank: innermost-enclosing nesting per host thread + device activities under
their linked host call (+ optional backward re-parenting)."""
from __future__ import annotations

from typing import Any, Dict, List, Optional

from mc import laminar, refmodel


def build(rows: List[Dict[str, Any]], backward: bool = True) -> Dict[str, Any]:
    lk = refmodel.links(rows)
    by = {r["id"]: r for r in rows}
    parent: Dict[int, Optional[int]] = {}
    threads: Dict[Any, List[Dict[str, Any]]] = {}
    for r in rows:
        if r["stream"] == -1:
            threads.setdefault((r["pid"], r["tid"]), []).append(r)
    for key, evs in threads.items():
        p, _ = laminar.ref_parents([(r["id"], r["ts"], r["ts"] + r["dur"]) for r in evs])
        for r in evs:
            if r["dur"] > 0:
                parent[r["id"]] = None if p[r["id"]] == -1 else p[r["id"]]
            else:
                raise ValueError("reference tree is only defined here for positive-duration host events")
    device = []
    for r in rows:
        if r["stream"] > 0 and lk[r["id"]] > 0 and lk[r["id"]] in parent:
            parent[r["id"]] = lk[r["id"]]
            device.append(r["id"])
    relinked = []
    if backward:
        main = [k for k, evs in threads.items() if any(e["name"].startswith("ProfilerStep#") for e in evs)]
        bwd = [k for k, evs in threads.items() if k not in main and any("autograd::" in e["name"] for e in evs)]
        if len(main) == 1 and len(bwd) == 1:
            anns = [e for e in threads[main[0]] if e["name"].startswith("## backward ##")]
            if not any(e["name"].startswith("## backward ##") for e in rows):
                anns = [e for e in threads[main[0]] if e["name"].startswith("ProfilerStep#")]
            for a in anns:
                for e in threads[bwd[0]]:
                    if parent[e["id"]] is None and e["ts"] >= a["ts"] and e["ts"] + e["dur"] <= a["ts"] + a["dur"]:
                        parent[e["id"]] = a["id"]
                        relinked.append(e["id"])
    children: Dict[Optional[int], List[int]] = {}
    for i, p in parent.items():
        children.setdefault(p, []).append(i)

    def depth(i):
        d, p = 0, parent[i]
        while p is not None:
            d += 1
            p = parent[p]
        return d

    def descendants(i):
        out = []
        for c in children.get(i, []):
            out.append(c)
            out += descendants(c)
        return out

    def height(i):
        if i in device:
            return 0
        return 1 + max([height(c) for c in children.get(i, [])] + [0])

    info = {}
    for i in parent:
        ks = [by[d] for d in descendants(i) if d in device]
        if i in device:
            ks = [by[i]]
        info[i] = dict(parent=parent[i], depth=depth(i), height=height(i), num_kernels=len(ks),
                       kernel_dur_sum=sum(k["dur"] for k in ks),
                       first_kernel_start=min([k["ts"] for k in ks], default=None),
                       last_kernel_end=max([k["ts"] + k["dur"] for k in ks], default=None))
    return dict(info=info, device=set(device), children=children, descendants=descendants, relinked=relinked, by=by, links=lk)
