"""Exploration engine: enumerate canonical worlds, run the real code on every one of them in
long-lived worker processes, compare with the reference model, write evidence and replay files.

A property module (mc/props/cNN.py) provides

    ID            'C07'
    TECHNIQUE     short text
    RULE          how worlds are enumerated / what is non-trivial
    ASSUMPTIONS   list of strings
    bounds(tier)  -> dict (reported in the evidence)
    worlds(tier, stats) -> iterator of JSON-serialisable worlds, already canonical and
                  deduplicated; it bumps stats['transitions'] once per explorer step executed
                  (menu choice appended / operation applied), including steps that lead to an
                  already-seen state.
    check(world)  -> dict(viol=[(signature, detail)], nontrivial=bool, outcome=str, execs=int,
                  extra_transitions=int)   (run inside a worker; imports hta)

Nothing here samples: every world the generator yields is evaluated. A cap, when one exists, is
declared by the property module in bounds(tier)['caps'] and reported as exhaustive=False.
"""
from __future__ import annotations

import hashlib
import importlib
import json
import os
import subprocess
import sys
import time
import traceback
from concurrent.futures import ProcessPoolExecutor, FIRST_COMPLETED, wait
import multiprocessing as mp
from typing import Any, Dict, Iterator, List

VERIF = os.path.dirname(os.path.dirname(os.path.abspath(__file__)))
KNOWN_FILE = os.path.join(VERIF, "known_findings.json")
MAX_CONFIRM = int(os.environ.get("VERIF_MAX_CONFIRM", "6"))
CHUNK_TIMEOUT = int(os.environ.get("VERIF_CHUNK_TIMEOUT", "240"))
MAX_DEAD_WORLDS = int(os.environ.get("VERIF_MAX_DEAD_WORLDS", "24"))
SKIPPED_AFTER_DEATHS = [0]


def repo_path() -> str:
    return os.environ.get("VERIF_REPO", "/repo")


def setup_hta_env() -> None:
    """Make `import hta` resolve to the working tree under test and keep it quiet."""
    rp = repo_path()
    if rp not in sys.path[:1]:
        sys.path.insert(0, rp)
    os.environ.setdefault("HTA_VERIF", "1")
    import logging
    import warnings

    warnings.filterwarnings("ignore")
    import hta  # noqa: F401

    assert os.path.realpath(os.path.dirname(hta.__file__)).startswith(os.path.realpath(rp)), (
        hta.__file__, rp)
    from hta.configs import config as _c

    logging.getLogger("hta").setLevel(logging.CRITICAL)
    _c.logger.setLevel(logging.CRITICAL)
    logging.disable(logging.CRITICAL)
    try:
        import pandas as pd

        pd.options.mode.chained_assignment = None
    except Exception:
        pass


_MOD = None
import collections as _collections

_RECENT: "_collections.deque" = _collections.deque(maxlen=int(os.environ.get("VERIF_HISTORY", "96")))


def _limit_memory() -> None:
    """a runaway execution must fail with MemoryError instead of taking the machine down"""
    try:
        import resource

        lim = int(os.environ.get("VERIF_MEM_LIMIT_GB", "8")) * 1024 ** 3
        resource.setrlimit(resource.RLIMIT_AS, (lim, lim))
    except Exception:
        pass


def _worker_init(modname: str) -> None:
    global _MOD
    _limit_memory()
    os.environ["PYTHONHASHSEED"] = os.environ.get("PYTHONHASHSEED", "0")
    setup_hta_env()
    _MOD = importlib.import_module(modname)
    if hasattr(_MOD, "worker_init"):
        _MOD.worker_init()


def safe_check(mod, world) -> Dict[str, Any]:
    try:
        r = mod.check(world)
    except Exception as ex:  # harness/oracle crash or unexpected HTA crash outside the oracle's try blocks
        tb = traceback.format_exc()
        last = [ln for ln in tb.strip().splitlines() if ln.startswith("  File")][-1:]
        r = dict(viol=[("crash/" + type(ex).__name__ + "/" + _where(tb), tb[-1500:])],
                 nontrivial=False, outcome="crash", execs=1)
    return r


def _where(tb: str) -> str:
    """innermost frame inside hta/ (else inside mc/) as file:function - stable across line edits"""
    import re

    frames = re.findall(r'File "([^"]+)", line \d+, in (\S+)', tb)
    for f, fn in reversed(frames):
        if "/hta/" in f:
            return "hta/" + f.split("/hta/")[-1] + ":" + fn
    for f, fn in reversed(frames):
        if "/mc/" in f:
            return "mc/" + f.split("/mc/")[-1] + ":" + fn
    return "unknown"


def _work(chunk: List[Any]) -> Dict[str, Any]:
    out = dict(n=0, nontrivial=0, outcomes=set(), execs=0, viols=[], xtrans=0, xstates=0)
    per_sig: Dict[str, int] = {}
    out["histories"] = {}
    try:
        from mc import nondet as _nd
        cap0 = _nd.CAP_HITS[0]
    except Exception:
        _nd, cap0 = None, 0
    for idx, w in enumerate(chunk):
        _RECENT.append(w)
        r = safe_check(_MOD, w)
        out["n"] += 1
        out["execs"] += int(r.get("execs", 1))
        out["xtrans"] += int(r.get("extra_transitions", 0))
        out["xstates"] += int(r.get("extra_states", 0))
        if r.get("nontrivial"):
            out["nontrivial"] += 1
        oc = r.get("outcome")
        if oc is not None:
            out["outcomes"].add(hashlib.md5(str(oc).encode()).hexdigest()[:12])
        for sig, detail in r.get("viol", []):
            k = per_sig.get(sig, 0)
            per_sig[sig] = k + 1
            if k == 0:
                out["histories"][sig] = list(_RECENT)   # what this process analysed before (ends with w)
            if k < 2:
                out["viols"].append((sig, w, detail))
            else:
                out["viols"].append((sig, None, None))
    return out


class _Peek:
    pass


def _is_exhausted(chunk_iter) -> bool:
    return False


def _isolate(modname: str, worlds_list: List[Any], absorb) -> None:
    """run each world in its own fresh process; a world whose process dies is reported as a violation"""
    import tempfile
    from concurrent.futures import ThreadPoolExecutor

    def one(w):
        with tempfile.NamedTemporaryFile("w", suffix=".json", delete=False) as fh:
            json.dump(dict(world=w), fh, default=str)
            path = fh.name
        try:
            p = subprocess.run([sys.executable, "-m", "mc.check", modname.split(".")[-1].upper(), "--replay", path, "--json", "--full"],
                               cwd=VERIF, capture_output=True, text=True, env=dict(os.environ, PYTHONHASHSEED="0"), timeout=120, preexec_fn=_limit_memory)
            lines = [ln for ln in p.stdout.splitlines() if ln.startswith("{")]
            if lines:
                r = json.loads(lines[-1])["result"]
                return w, r
            return w, dict(viol=[(f"crash/worker-process-died/rc={p.returncode}", (p.stderr or "")[-600:])], nontrivial=False,
                           outcome="died", execs=1)
        except subprocess.TimeoutExpired:
            return w, dict(viol=[("crash/worker-process-hung", "timeout 120s")], nontrivial=False, outcome="hung", execs=1)
        finally:
            os.unlink(path)

    bad = [0]

    def guarded(w):
        # once many worlds have killed or hung their process the point is made: the rest is skipped (reported as a cap)
        if bad[0] >= MAX_DEAD_WORLDS:
            return w, None
        w2, r = one(w)
        if any(sg.startswith("crash/worker-process-") for sg, _ in r.get("viol", [])):
            bad[0] += 1
        return w2, r

    with ThreadPoolExecutor(max_workers=os.cpu_count() or 4) as tp:
        for w, r in tp.map(guarded, worlds_list):
            if r is None:
                SKIPPED_AFTER_DEATHS[0] += 1
                continue
            out = dict(n=1, nontrivial=1 if r.get("nontrivial") else 0, outcomes=set(), execs=int(r.get("execs", 1)),
                       xtrans=int(r.get("extra_transitions", 0)), xstates=int(r.get("extra_states", 0)),
                       viols=[(sg, w, dt) for sg, dt in r.get("viol", [])])
            oc = r.get("outcome")
            if oc is not None:
                out["outcomes"].add(hashlib.md5(str(oc).encode()).hexdigest()[:12])
            absorb(out)


def _chunks(it: Iterator[Any], size: int) -> Iterator[List[Any]]:
    buf: List[Any] = []
    for w in it:
        buf.append(w)
        if len(buf) >= size:
            yield buf
            buf = []
    if buf:
        yield buf


def load_known() -> List[Dict[str, Any]]:
    if not os.path.exists(KNOWN_FILE):
        return []
    with open(KNOWN_FILE) as fh:
        return json.load(fh).get("findings", [])


def world_size(w: Any) -> int:
    return len(json.dumps(w, default=str))


def run(modname: str, tier: str, seed: int, workers: int) -> int:
    try:
        return _run(modname, tier, seed, workers)
    finally:
        from mc import kineto as _k

        _k.sweep_stale_scratch()     # the workers are gone by now; they cannot clean up after themselves


def _run(modname: str, tier: str, seed: int, workers: int) -> int:
    t0 = time.time()
    mod = importlib.import_module(modname)
    pid = mod.ID
    stats: Dict[str, Any] = {"transitions": 0}
    bounds = mod.bounds(tier)
    chunk = int(bounds.get("chunk", 32))
    agg = dict(n=0, nontrivial=0, outcomes=set(), execs=0, xtrans=0, xstates=0)
    sigs: Dict[str, Dict[str, Any]] = {}
    samples: List[Any] = []
    gen = mod.worlds(tier, stats)
    ctx = mp.get_context("fork")
    chunk_iter = _chunks(gen, chunk)
    exhausted = False
    nsub = 0
    from mc import kineto as _kineto

    _kineto.sweep_stale_scratch()
    wall_budget = int(os.environ.get("VERIF_MAX_WALL", "1500" if tier == "quick" else "28800"))
    over_budget = False
    redo: List[Any] = []          # worlds whose worker process died (pool broken): re-run one per subprocess
    pool_breaks = 0

    histories: Dict[str, List[Any]] = {}

    def absorb(r):
        for sg, h in r.get("histories", {}).items():
            if sg not in histories or len(h) < len(histories[sg]):
                histories[sg] = h
        for k in ("n", "nontrivial", "execs", "xtrans", "xstates"):
            agg[k] += r[k]
        agg["caps_hit"] = agg.get("caps_hit", 0) + int(r.get("caps_hit", 0))
        agg["outcomes"] |= r["outcomes"]
        for sig, w, detail in r["viols"]:
            s = sigs.setdefault(sig, dict(count=0, world=None, detail=None))
            s["count"] += 1
            if w is not None and (s["world"] is None or world_size(w) < world_size(s["world"])):
                s["world"], s["detail"] = w, detail

    while not exhausted:
        broken = False
        with ProcessPoolExecutor(max_workers=workers, mp_context=ctx, initializer=_worker_init,
                                 initargs=(modname,)) as ex:
            pending: Dict[Any, List[Any]] = {}
            stalled = 0
            while True:
                while not exhausted and not broken and len(pending) < workers * 3:
                    try:
                        c = next(chunk_iter)
                    except StopIteration:
                        exhausted = True
                        break
                    if nsub in (0, 7, 31) and len(samples) < 4:
                        samples.append(c[(seed + nsub) % len(c)])
                    nsub += 1
                    pending[ex.submit(_work, c)] = c
                if not pending:
                    break
                done, _ = wait(list(pending), return_when=FIRST_COMPLETED, timeout=30)
                if time.time() - t0 > wall_budget:
                    # the run takes far longer than this tier ever does on a healthy tree (runaway slowdown): stop here
                    stats.setdefault("caps", []).append(f"wall-clock budget of {wall_budget}s exceeded; exploration stopped")
                    over_budget = True
                    for proc in list(getattr(ex, "_processes", {}).values()):
                        try:
                            proc.kill()
                        except Exception:
                            pass
                    for f in done:
                        c = pending.pop(f)
                        try:
                            absorb(f.result())
                        except Exception:
                            pass
                    pending.clear()
                    exhausted = True
                    break
                if not done:
                    stalled += 30
                    if stalled >= CHUNK_TIMEOUT:
                        # no chunk finished for a long time: some execution hangs. Kill the workers; the worlds in flight
                        # are then re-run one per process (with a per-world timeout) like after a worker death.
                        for proc in list(getattr(ex, "_processes", {}).values()):
                            try:
                                proc.kill()
                            except Exception:
                                pass
                        stalled = 0
                    continue
                stalled = 0
                for f in done:
                    c = pending.pop(f)
                    try:
                        absorb(f.result())
                    except Exception:  # BrokenProcessPool: some worker died abruptly (segfault / stack overflow / kill)
                        broken = True
                        redo.extend(c)
                if broken:
                    for f, c in list(pending.items()):
                        try:
                            absorb(f.result(timeout=0.01))
                        except Exception:
                            redo.extend(c)
                    pending.clear()
                    break
        if broken and not over_budget:
            pool_breaks += 1
            exhausted = False if not _is_exhausted(chunk_iter) else True
            _isolate(modname, redo, absorb)
            redo = []
            if SKIPPED_AFTER_DEATHS[0] or pool_breaks >= 3:
                # worker processes keep dying: the violation is established, the rest of the space is not explored
                stats.setdefault("caps", []).append(f"exploration stopped after {pool_breaks} worker-pool failures")
                exhausted = True
            if pool_breaks > 20:
                print(f"HARNESS-ERROR property={pid} worker pool broke {pool_breaks} times")
                return 2
    wall = time.time() - t0
    import fnmatch

    known = [k for k in load_known() if k.get("property") == pid and k.get("status") == "known"]

    def known_entry(sig: str):
        for k in known:
            if k.get("signature") == sig or (k.get("signature_glob") and fnmatch.fnmatchcase(sig, k["signature_glob"])):
                return k
        return None

    known_hits: Dict[str, Dict[str, Any]] = {}
    new_viol = 0
    unrepro: List[Any] = []
    history_dependent: set = set()
    nconf = 0
    lines: List[str] = []
    rdir = os.path.join(os.environ.get("VERIF_REPLAY_DIR", os.path.join(VERIF, "replays")), pid)
    for sig in sorted(sigs):
        s = sigs[sig]
        os.makedirs(rdir, exist_ok=True)
        path = os.path.join(rdir, hashlib.md5(sig.encode()).hexdigest()[:10] + ".json")
        with open(path, "w") as fh:
            json.dump(dict(property=pid, signature=sig, world=s["world"], detail=s["detail"],
                           occurrences=s["count"]), fh, indent=1, default=str)
        # every reported violation is replayed twice in fresh processes (first MAX_CONFIRM signatures; the rest
        # share their cause in practice and only cost time).  Signatures produced by conformance runs against the
        # real OS scheduler (module.REAL_SCHED_PREFIXES) cannot be required to reproduce deterministically.
        nconf += 1
        real_sched = any(sig.startswith(p) for p in getattr(mod, "REAL_SCHED_PREFIXES", ()))
        if nconf <= MAX_CONFIRM and not real_sched:
            ok, msg = confirm_replay(modname, path, sig)
            if not ok and len(histories.get(sig, [])) > 1:
                # the outcome may depend on what the same process executed before (state leaking between analyses):
                # replay the sequence of worlds that preceded it in its chunk, in a fresh process, twice
                with open(path, "w") as fh:
                    json.dump(dict(property=pid, signature=sig, world=s["world"], history=histories[sig], detail=s["detail"],
                                   occurrences=s["count"]), fh, indent=1, default=str)
                ok, msg2 = confirm_replay(modname, path, sig)
                if ok:
                    history_dependent.add(sig)
                msg = msg + " / with history: " + (msg2 or "reproduced")
            if not ok:
                # not reproducible in a fresh process, alone or after its chunk history: the outcome depended on something
                # the harness does not own. Never reported as a violation.
                unrepro.append((sig, msg))
                continue
        ke = known_entry(sig)
        if ke is not None:
            h = known_hits.setdefault(ke.get("signature") or ke.get("signature_glob"), dict(entry=ke, sigs=[], count=0, replay=path))
            h["sigs"].append(sig)
            h["count"] += s["count"]
        else:
            new_viol += 1
            hd = " history-dependent=yes(replay file holds the sequence of analyses)" if sig in history_dependent else ""
            lines.append(f"VIOLATION property={pid} replay={path} signature={sig} occurrences={s['count']}{hd}")
    for name, h in sorted(known_hits.items()):
        lines.insert(0, f"KNOWN-FINDING: property={pid} {name} :: {h['entry'].get('description', '')} "
                        f"(matched signatures={len(h['sigs'])}, occurrences={h['count']}, replay={h['replay']})")
    vacuous = None
    min_out = int(bounds.get("min_outcomes", 2))
    if agg["n"] == 0:
        vacuous = "no worlds generated"
    elif len(agg["outcomes"]) < min_out:
        vacuous = f"only {len(agg['outcomes'])} distinct outcome(s) from {agg['n']} worlds"
    elif agg["nontrivial"] < 2:
        vacuous = f"only {agg['nontrivial']} non-trivial worlds"
    caps = list(bounds.get("caps") or stats.get("caps") or [])
    if SKIPPED_AFTER_DEATHS[0]:
        caps.append(f"{SKIPPED_AFTER_DEATHS[0]} worlds were skipped after {MAX_DEAD_WORLDS} worlds had killed or hung their process")
    if agg.get("caps_hit"):
        caps.append(f"the per-world cap on single-tie-group deviation plans was reached on {agg['caps_hit']} worlds; on those the stable "
                    f"order, the all-reversed order and the first plans up to the cap were explored")
    ev = dict(
        property_id=pid, tier=tier, seed=seed, level="model_checking",
        coverage=dict(
            states=agg["n"] + agg["xstates"],
            transitions=int(stats["transitions"]) + agg["xtrans"],
            traces_validated_against_impl=agg["execs"],
            evaluations=agg["n"],
            distinct_nontrivial=agg["nontrivial"],
            distinct_outcomes=len(agg["outcomes"]),
            rule=mod.RULE,
            bounds={k: v for k, v in bounds.items() if k not in ("chunk",)},
            exhaustive=not caps,
            caps=caps or [],
            samples=samples[:4],
            generator_stats={k: v for k, v in stats.items() if k != "transitions"},
            violation_signatures={k: v["count"] for k, v in sigs.items()},
            known_findings_matched={k: v["sigs"] for k, v in known_hits.items()},
            repo=repo_path(),
        ),
        assumptions=list(mod.ASSUMPTIONS),
        wall_s=round(wall, 2),
        violations=new_viol,
    )
    os.makedirs(os.path.join(VERIF, "evidence"), exist_ok=True)
    evp = os.environ.get("VERIF_EVIDENCE_DIR", os.path.join(VERIF, "evidence"))
    os.makedirs(evp, exist_ok=True)
    with open(os.path.join(evp, f"{pid}.json"), "w") as fh:
        json.dump(ev, fh, indent=1, default=str)
    for ln in lines:
        print(ln)
    for sig, msg in unrepro:
        print(f"UNREPRODUCIBLE property={pid} signature={sig} :: observed during exploration but not when its world is replayed "
              f"alone in a fresh process ({msg}); not counted as a violation")
    if unrepro and not new_viol:
        print(f"HARNESS-ERROR property={pid} {len(unrepro)} outcome(s) depend on execution history inside a worker and no "
              f"reproducible violation was found")
        return 2
    print(f"[{pid}/{tier}] states={agg['n']} transitions={ev['coverage']['transitions']} impl_runs={agg['execs']} "
          f"nontrivial={agg['nontrivial']} outcomes={len(agg['outcomes'])} signatures={len(sigs)} "
          f"new_violations={new_viol} wall={wall:.1f}s")
    if over_budget and not new_viol:
        print(f"HARNESS-ERROR property={pid} wall-clock budget exceeded without a reproducible violation "
              f"(explored {agg['n']} worlds); nothing can be claimed")
        return 2
    if vacuous and not new_viol:
        print(f"HARNESS-ERROR property={pid} vacuous exploration: {vacuous}")
        return 2
    return 1 if new_viol else 0


def _unused():
    pass


def confirm_replay(modname: str, path: str, sig: str):
    """Replay the recorded world twice in fresh processes; both must reproduce the signature."""
    outs = []
    for _ in range(2):
        p = subprocess.run([sys.executable, "-m", "mc.check", modname.split(".")[-1].upper(),
                            "--replay", path, "--json"], cwd=VERIF, capture_output=True, text=True,
                           env=dict(os.environ, PYTHONHASHSEED="0"))
        last = [ln for ln in p.stdout.splitlines() if ln.startswith("{")]
        if not last:
            return False, f"replay produced no result (rc={p.returncode}): {p.stderr[-400:]}"
        outs.append(sorted(set(json.loads(last[-1])["signatures"])))
    if outs[0] != outs[1]:
        return False, f"{outs[0]} vs {outs[1]}"
    if sig not in outs[0]:
        return False, f"signature not reproduced: got {outs[0]}"
    return True, ""


def replay(modname: str, path: str, as_json: bool, full: bool = False) -> int:
    setup_hta_env()
    mod = importlib.import_module(modname)
    if hasattr(mod, "worker_init"):
        mod.worker_init()
    with open(path) as fh:
        rec = json.load(fh)
    for w_prev in (rec.get("history") or [])[:-1]:
        safe_check(mod, w_prev)      # earlier analyses of the same process (their results are not judged here)
    r = safe_check(mod, rec["world"])
    sigs = [s for s, _ in r["viol"]]
    if as_json:
        if full:
            print(json.dumps(dict(signatures=sigs, result=dict(viol=[[a, b] for a, b in r["viol"]], nontrivial=bool(r.get("nontrivial")),
                                                               outcome=str(r.get("outcome"))[:300], execs=r.get("execs", 1),
                                                               extra_transitions=r.get("extra_transitions", 0),
                                                               extra_states=r.get("extra_states", 0))), default=str))
        else:
            print(json.dumps(dict(signatures=sigs)))
    else:
        for s, d in r["viol"]:
            print("VIOLATION", s)
            print("   ", str(d)[:3000])
        if not sigs:
            print("no violation on this world")
    return 1 if sigs else 0
