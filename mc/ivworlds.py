"""Device-activity 'interval worlds' shared by C04 / C05 / C07.

A *menu trace* holding every activity the alphabet can produce is written once per worker and
loaded through HTA's public loader; a world is a multiset of menu items and is handed to the
analyzers as the row subset of the loaded frame (exactly what trimming or a user-side filter
produces).  Worlds of the *file slice* are instead written to their own files and loaded.
"""
from __future__ import annotations

import itertools
from typing import Any, Dict, Iterator, List, Sequence, Tuple

from mc import kineto

EPOCH = 1000  # file timestamps are EPOCH + grid time; the loader must shift them away

ANNO = ["anno_fwd", "anno_bwd", "anno_opt", "anno_misc"]
NAMES = {
    "A": ANNO,
    "P": ["void kern_a(float*)", "kern_b", "void at::native::elementwise<float>(int)", "sm80_gemm",
          # a computation kernel whose *shortened* display name (return type and arguments stripped) would read as a
          # communication kernel: only the real name decides the type
          "void ncclKernel_lookalike(int)"],
    "M": ["ncclKernel_AllReduce_RING_LL_Sum_float(ncclWorkElem)", "ncclDevKernel_AllGather_RING(ncclDevComm*)",
          "ncclKernel_ReduceScatter", "ncclKernel_SendRecv"],
    "Y": ["Memcpy DtoD (Device -> Device)", "Memcpy HtoD (Pageable -> Device)", "Memset (Device)",
          "Memcpy DtoH (Device -> Pageable)"],
    "O": ["Stream Sync", "Stream Wait Event"],
}
CATS = {"A": "gpu_user_annotation", "P": "kernel", "M": "kernel", "Y": "gpu_memcpy", "O": "cuda_sync"}
STREAM = {"A": 7, "P": 7, "M": 9, "Y": 11, "O": 7}


def spans(T: int, zero: bool = True) -> List[Tuple[int, int]]:
    return [(s, e) for s in range(T + 1) for e in range(s if zero else s + 1, T + 1)]


def item_event(item: Sequence[Any], corr: int, scale: int = 1, streams: Any = None) -> Dict[str, Any]:
    s, e, ty, ni, cp = item
    s, e = s * scale, e * scale
    name = NAMES[ty][ni]
    stream = (streams or {}).get(ty, STREAM[ty])
    if CATS[ty] == "gpu_memcpy":
        if name.startswith("Memset"):
            return kineto.memset(name, EPOCH + s, e - s, stream, corr)
        return kineto.memcpy(name, EPOCH + s, e - s, stream, corr, bw=1.0)
    if CATS[ty] == "gpu_user_annotation":
        return kineto.gpu_annotation(name, EPOCH + s, e - s, stream)
    if CATS[ty] == "cuda_sync":
        return kineto.cuda_sync(name, EPOCH + s, e - s, stream, corr)
    return kineto.kernel(name, EPOCH + s, e - s, stream, corr)


def events_for(items: Sequence[Sequence[Any]], with_launch: bool = True, no_corr: bool = False,
               spread: bool = False, scale: int = 1, streams: Any = None) -> List[Dict[str, Any]]:
    """entry 0 = a host operator at EPOCH; then per item (launch call,) activity.
    no_corr: the activities carry no correlation id at all (an optional field; nothing launches them in the file)
    spread: the launch calls are issued one after the other before EPOCH instead of all at EPOCH
    scale: grid times are multiplied by it (very long traces); streams: type -> stream id override (e.g. the default stream 0)"""
    evs = [kineto.cpu_op("aten::root", EPOCH, 1)]
    corr = 10
    n = len(items)
    for k, it in enumerate(items):
        if with_launch and not no_corr:
            evs.append(kineto.runtime("cudaLaunchKernel", EPOCH - 2 * (n - k) if spread else EPOCH, 1, corr))
        e = item_event(it, corr, scale, streams)
        if no_corr:
            e["args"].pop("correlation", None)
            e["args"].pop("External id", None)
        evs.append(e)
        corr += 1
    return evs


class Menu:
    """loaded menu trace: item -> event id"""

    def __init__(self, T: int = 4, types: Sequence[str] = "PM", nnames: int = 1, copies: int = 2, ranks: int = 1,
                 zero: bool = True, items: Any = None) -> None:
        from mc import htaenv

        self.items = list(items) if items is not None else [
            (s, e, ty, ni, cp) for (s, e) in spans(T, zero) for ty in types
            for ni in range(nnames) for cp in range(copies)]
        evs = [kineto.cpu_op("aten::root", EPOCH, 1)]
        self.id: Dict[Tuple, int] = {}
        corr = 10
        for it in self.items:
            self.id[it] = len(evs)
            evs.append(item_event(it, corr))
            corr += 1
        self.ta, _ = htaenv.load_world({r: evs for r in range(ranks)})
        # sanity: the loaded rows are the menu items
        df = self.ta.t.get_trace(0)
        st = self.ta.t.symbol_table.get_sym_table()
        for it, i in self.id.items():
            row = df.loc[i]
            assert (row["ts"], row["dur"], st[row["name"]]) == (it[0], it[1] - it[0], NAMES[it[2]][it[3]]), (it, row)

    def sub(self, per_rank: Dict[int, Sequence[Sequence[Any]]]):
        from mc import htaenv

        return htaenv.sub_trace(self.ta, {r: [self.id[tuple(it)] for it in items] for r, items in per_rank.items()})


def multisets(items: Sequence[Tuple], kmax: int, kmin: int = 1, max_mult: int = 2) -> Iterator[Tuple[Tuple, ...]]:
    """all multisets of base items (without the copy field) of size kmin..kmax with multiplicity
    <= max_mult, as tuples of (s,e,ty,ni,copy) with copies numbered 0.. within equal items"""
    for k in range(kmin, kmax + 1):
        for combo in itertools.combinations_with_replacement(items, k):
            out = []
            ok = True
            prev, cnt = None, 0
            for b in combo:
                cnt = cnt + 1 if b == prev else 0
                prev = b
                if cnt >= max_mult:
                    ok = False
                    break
                out.append(b + (cnt,))
            if ok:
                yield tuple(out)


def row_orders(n: int, full_upto: int = 2) -> List[List[int]]:
    """row (file) orders tried for a world of n activities: all permutations up to full_upto rows,
    else identity, reversal and the two rotations by one"""
    ident = list(range(n))
    if n <= full_upto:
        return [list(p) for p in itertools.permutations(ident)]
    outs = [ident, ident[::-1]] if n > full_upto + 1 else [ident, ident[::-1], ident[1:] + ident[:1], ident[-1:] + ident[:-1]]
    res = []
    for o in outs:
        if o not in res:
            res.append(o)
    return res


# ------------------------------------------------------------------ histories (state leaking between traces)
HISTORY_FAMILY = [
    # each: list of items (s, e, type, name idx, copy); vocabularies chosen so that the same symbol id means a kernel of a
    # different type in another member (ids are per-trace, any cache keyed by id or name that outlives a trace shows here)
    [(0, 2, "P", 0, 0), (1, 4, "P", 1, 0), (3, 5, "P", 2, 0), (5, 6, "P", 3, 0)],
    [(0, 2, "M", 0, 0), (1, 4, "Y", 0, 0), (3, 5, "M", 1, 0), (5, 6, "P", 0, 0)],
    [(0, 3, "Y", 1, 0), (2, 4, "P", 1, 0), (4, 6, "M", 2, 0), (6, 6, "Y", 2, 0)],
    [(0, 1, "M", 3, 0), (0, 5, "M", 0, 0)],
]


def history_sequences():
    """every ordered pair (A, B) of distinct family members, analysed as A, B, A on fresh loads inside one process"""
    n = len(HISTORY_FAMILY)
    for a in range(n):
        for b in range(n):
            if a != b:
                yield [a, b, a]
