"""CLI:  python -m mc.check C07 [--tier quick|thorough] [--replay file [--json]]

exit 0: property held on everything explored (KNOWN-FINDING lines possible)
exit 1: at least one `VIOLATION property=<id> replay=<path>` line
exit 2: the harness itself is broken (vacuous run, nondeterministic replay)
"""
from __future__ import annotations

import argparse
import os
import sys


def main() -> int:
    ap = argparse.ArgumentParser()
    ap.add_argument("prop")
    ap.add_argument("--tier", default=os.environ.get("VERIF_TIER", "quick"), choices=["quick", "thorough"])
    ap.add_argument("--replay")
    ap.add_argument("--json", action="store_true")
    ap.add_argument("--full", action="store_true")
    ap.add_argument("--workers", type=int, default=int(os.environ.get("VERIF_WORKERS", "0")) or (os.cpu_count() or 4))
    a = ap.parse_args()
    if "PYTHONHASHSEED" not in os.environ:
        # string-hash order (set iteration -> symbol numbering) is a nondeterminism seam the checks own: exploration
        # workers and replay processes must all see the same one, so start over with it pinned
        os.environ["PYTHONHASHSEED"] = "0"
        os.execv(sys.executable, [sys.executable, "-m", "mc.check"] + sys.argv[1:])
    seed = int(os.environ.get("VERIF_SEED", "0") or 0)
    modname = "mc.props." + a.prop.lower()
    from mc import engine

    if a.replay:
        return engine.replay(modname, a.replay, a.json, a.full)
    return engine.run(modname, a.tier, seed, a.workers)


if __name__ == "__main__":
    sys.exit(main())
