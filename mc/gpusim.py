"""Operational model of CUDA stream semantics used to *generate* causally consistent traces.

A host program (one thread) is a list of actions; the model assigns times:
  kernel start = max(launch start + latency, end of the previous activity on the stream)
  a synchronising call returns at max(call start + its minimum duration, end of the work it waits for)
Every behaviour of the model (program x parameter profile) is replayed against HTA's critical-path
analysis.  Actions:
  ("op", name)            open a host operator (closed by ("end",))
  ("end",)
  ("launch", stream)      cudaLaunchKernel + kernel on the stream
  ("memcpy", stream)      cudaMemcpyAsync + gpu_memcpy on the stream
  ("ssync", stream)       cudaStreamSynchronize + 'Stream Sync' record on the stream
  ("dsync",)              cudaDeviceSynchronize + 'Context Sync' record (stream -1)
  ("step", k)             open a ProfilerStep#k annotation (closed by ("end",))
  ("erecord", stream)     cudaEventRecord: an event that completes when the work launched so far on the stream has ended
  ("swait", stream)       cudaStreamWaitEvent + 'Stream Wait Event' record: later work on the stream waits for the last event
  ("esync",)              cudaEventSynchronize + 'Event Sync' record (stream -1): the host waits for the last event
  ("anno", name)          open a user annotation nested inside an operator (closed by ("end",))
"""
from __future__ import annotations

from typing import Any, Dict, List, Sequence, Tuple

from mc import kineto

E0 = 1_700_000_000_000_000


def run(program: Sequence[Sequence[Any]], prof: Dict[str, Any]) -> List[Dict[str, Any]]:
    """prof: host_dur (call duration), lat (launch latency), kdur (list cycled over kernels), gap (host gap between actions),
    open_cost (time between an operator's start and its first child)"""
    hd, lat, kdurs, gap, oc = prof["host_dur"], prof["lat"], prof["kdur"], prof.get("gap", 0), prof.get("open_cost", 1)
    evs: List[Dict[str, Any]] = [kineto.cpu_op("aten::root", E0 - 9, 3, ext=0)]
    t = E0
    stack: List[Tuple[int, Any]] = []
    stream_end: Dict[int, int] = {}
    corr = 100
    nk = 0
    last_event = None
    step = 1
    if prof.get("corr_order") == "descending":   # correlation ids are opaque labels: they need not grow with time
        corr, step = 900, -1
    for a in program:
        kind = a[0]
        if kind in ("op", "step", "anno"):
            stack.append((len(evs), a, t))
            evs.append(None)
            t += oc
        elif kind == "end":
            idx, oa, st = stack.pop()
            if t == st:
                t += 1  # host events have positive duration
            if oa[0] == "op":
                evs[idx] = kineto.cpu_op(oa[1], st, t - st, ext=idx)
            elif oa[0] == "anno":
                evs[idx] = kineto.annotation(oa[1], st, t - st)
            else:
                evs[idx] = kineto.step(oa[1], st, t - st)
            t += gap
        elif kind in ("launch", "memcpy"):
            s = a[1]
            kd = kdurs[nk % len(kdurs)]
            nk += 1
            ks = max(t + lat, stream_end.get(s, 0))
            if kind == "launch":
                evs.append(kineto.runtime("cudaLaunchKernel", t, hd, corr))
                kn = prof.get("knames", {}).get(str(s)) or ("ncclKernel_AllReduce(x)" if s == 9 else "void kern(float*)")
                evs.append(kineto.kernel(kn, ks, kd, s, corr))
            else:
                evs.append(kineto.runtime("cudaMemcpyAsync", t, hd, corr))
                evs.append(kineto.memcpy("Memcpy DtoD (Device -> Device)", ks, kd, s, corr, bw=1.0))
            stream_end[s] = ks + kd
            corr += step
            t += hd + gap
        elif kind == "ssync":
            s = a[1]
            end = max(t + hd, stream_end.get(s, 0))
            evs.append(kineto.runtime("cudaStreamSynchronize", t, end - t, corr))
            evs.append(kineto.cuda_sync("Stream Sync", t, end - t, s, corr))
            corr += step
            t = end + gap
        elif kind == "dsync":
            end = max([t + hd] + list(stream_end.values()))
            evs.append(kineto.runtime("cudaDeviceSynchronize", t, end - t, corr))
            evs.append(kineto.cuda_sync("Context Sync", t, end - t, -1, corr))
            corr += step
            t = end + gap
        elif kind == "erecord":
            s = a[1]
            last_event = dict(corr=corr, stream=s, ready=stream_end.get(s, t))
            evs.append(kineto.runtime("cudaEventRecord", t, hd, corr))
            corr += step
            t += hd + gap
        elif kind == "swait":
            s2 = a[1]
            assert last_event is not None, "swait before any erecord"
            stream_end[s2] = max(stream_end.get(s2, 0), last_event["ready"])
            extra = {"wait_on_stream": last_event["stream"], "wait_on_cuda_event_record_corr_id": last_event["corr"], "wait_on_cuda_event_id": 9}
            evs.append(kineto.runtime("cudaStreamWaitEvent", t, hd, corr))
            evs.append(kineto.cuda_sync("Stream Wait Event", t, hd, s2, corr, extra=extra))
            corr += step
            t += hd + gap
        elif kind == "esync":
            assert last_event is not None, "esync before any erecord"
            end = max(t + hd, last_event["ready"])
            extra = {"wait_on_stream": last_event["stream"], "wait_on_cuda_event_record_corr_id": last_event["corr"], "wait_on_cuda_event_id": 9}
            evs.append(kineto.runtime("cudaEventSynchronize", t, end - t, corr))
            evs.append(kineto.cuda_sync("Event Sync", t, end - t, -1, corr, extra=extra))
            corr += step
            t = end + gap
        else:
            raise ValueError(a)
    assert not stack, "unbalanced program"
    return evs


ACTIONS = [("launch", 7), ("launch", 9), ("memcpy", 7), ("ssync", 7), ("ssync", 9), ("dsync",)]


def programs(L: int, with_ops: bool = True):
    """all balanced programs with at most L non-structural actions and operator nesting <= 2"""
    out: List[List[Tuple]] = []

    def rec(prog, n_act, depth, n_ops):
        if depth == 0 and prog:
            out.append(list(prog))
        if n_act < L:
            for a in ACTIONS:
                prog.append(a)
                rec(prog, n_act + 1, depth, n_ops)
                prog.pop()
        if with_ops and depth < 2 and n_ops < 2 and n_act < L:
            prog.append(("op", f"aten::op{n_ops}"))
            rec(prog, n_act, depth + 1, n_ops + 1)
            prog.pop()
            if depth == 1:
                # a user annotation nested inside an operator (host event that is no graph node)
                prog.append(("anno", "my_region"))
                rec(prog, n_act, depth + 1, n_ops + 1)
                prog.pop()
        if depth > 0 and prog[-1][0] not in ("op", "anno"):
            prog.append(("end",))
            rec(prog, n_act, depth - 1, n_ops)
            prog.pop()

    rec([], 0, 0, 0)
    # dedupe (the recursion emits a program once per way of reaching it)
    seen, res = set(), []
    for p in out:
        k = tuple(p)
        if k not in seen:
            seen.add(k)
            res.append(p)
    return res


EVENT_ACTIONS = [("launch", 7), ("launch", 9), ("erecord", 7), ("swait", 9), ("esync",), ("ssync", 9)]


def event_programs(L: int):
    """all flat programs of 2..L actions over EVENT_ACTIONS that record an event before waiting on one"""
    import itertools

    out = []
    for n in range(2, L + 1):
        for p in itertools.product(EVENT_ACTIONS, repeat=n):
            rec = False
            ok = True
            uses = False
            for a in p:
                if a[0] == "erecord":
                    rec = True
                elif a[0] in ("swait", "esync"):
                    uses = True
                    if not rec:
                        ok = False
                        break
            if ok and uses:
                out.append(list(p))
    return out
