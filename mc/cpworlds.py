"""Worlds and shared analysis for the critical-path properties C08, C09, C10, C19, C20."""
from __future__ import annotations

import os
from typing import Any, Dict, Iterator, List, Optional, Tuple

from mc import gpusim, refmodel

PROFILES_QUICK = [
    dict(host_dur=2, lat=1, kdur=[3, 1], gap=0),
    dict(host_dur=1, lat=0, kdur=[3, 0, 1], gap=0),   # a zero-length kernel and its successor start when the long one ends
    dict(host_dur=1, lat=3, kdur=[3], gap=1),
    dict(host_dur=2, lat=0, kdur=[1], gap=0, open_cost=0),
]
PROFILES_MORE = [
    dict(host_dur=1, lat=0, kdur=[0, 3], gap=0),
    dict(host_dur=2, lat=3, kdur=[1, 3], gap=1),
    dict(host_dur=1, lat=0, kdur=[3], gap=0, open_cost=0),
    dict(host_dur=2, lat=1, kdur=[0, 1, 3], gap=0),
]


def wrap_steps(prog):
    """the program inside ProfilerStep#5, again inside #6, and a trailing #7 (trimmed by the loader)"""
    return [("step", 5)] + list(prog) + [("end",), ("step", 6)] + list(prog) + [("end",), ("step", 7), ("launch", 7), ("end",)]


def worlds(tier: str, stats: Dict[str, Any], subset: Optional[str] = None) -> Iterator[Any]:
    """subset='small' keeps the cheaper half (used by properties that do several heavy operations per graph)"""
    if tier == "quick":
        progs = [(p, "ops") for p in gpusim.programs(2)] + [(p, "flat") for p in gpusim.programs(3, with_ops=False) if len(p) == 3]
        profiles = PROFILES_QUICK
    else:
        progs = [(p, "ops") for p in gpusim.programs(2)] + [(p, "flat") for p in gpusim.programs(3, with_ops=False) if len(p) == 3]
        deep = [(p, "ops3") for p in gpusim.programs(3) if sum(1 for a in p if a[0] not in ("op", "anno", "end")) == 3] + \
               [(p, "flat4") for p in gpusim.programs(4, with_ops=False) if len(p) == 4]
        profiles = PROFILES_QUICK + PROFILES_MORE
    evprogs = gpusim.event_programs(3 if tier == "quick" else 4)
    if subset == "small":
        progs = progs[::3]
        evprogs = evprogs[::3]
    elif subset == "smaller":
        progs = progs[::6]
        evprogs = evprogs[::4]
    for i, (p, kind) in enumerate(progs):
        for j, prof in enumerate(profiles):
            stats["transitions"] += 1
            yield dict(program=[list(a) for a in p], profile=prof, steps=False, flag=(i + j) % 2)
            if 0 in prof["kdur"] or j == 0:
                # Kineto does not write events in time order: same trace, device records last and in reverse order
                stats["transitions"] += 1
                yield dict(program=[list(a) for a in p], profile=prof, steps=False, flag=(i + j + 1) % 2, file_order="device-reversed")
            if 0 in prof["kdur"] and (i % 2 == 1):
                stats["transitions"] += 1
                yield dict(program=[list(a) for a in p], profile=dict(prof, corr_order="descending"), steps=False, flag=i % 2)
            if j == 0 and (i % 3 == 1):
                # activity names whose shortened form is empty or a token that CSV readers take for "missing"
                stats["transitions"] += 1
                yield dict(program=[list(a) for a in p], profile=dict(prof, knames={"7": "<unnamed>", "9": "null"}), steps=False,
                           flag=i % 2, names="na-tokens")
            if j == 1 and (i % 3 == 0):
                # the same trace as rank 1 of a two-rank job whose rank 0 has a different event layout
                stats["transitions"] += 1
                yield dict(program=[list(a) for a in p], profile=prof, steps=False, flag=i % 2, as_rank1=True)
            if j == 2 and (i % 3 == 2):
                # a second host process whose thread has the same tid as the main thread, busy at the same time
                stats["transitions"] += 1
                yield dict(program=[list(a) for a in p], profile=prof, steps=False, flag=i % 2, second_process=True)
            if j == 1 and (i % 3 == 2) and any(a[0] == "launch" and a[1] == 9 for a in p):
                # names are decoded (unshortened) before the analysis; the communication kernel has a templated name
                stats["transitions"] += 1
                yield dict(program=[list(a) for a in p], profile=dict(prof, knames={"9": "void ncclKernel_AllReduce_RING_LL_Sum_float<false>(ncclDevComm*, int)"}),
                           steps=False, flag=i % 2, prior_decode=True)
            if j == 0 and (i % 2 == 0):
                # a second host thread holding a single leaf operator (a disconnected component of the graph)
                for leaf in (200, 1):
                    stats["transitions"] += 1
                    yield dict(program=[list(a) for a in p], profile=prof, steps=False, flag=i % 2, second_thread=leaf)
            if kind == "ops" and len(p) <= 4 and j < 2:
                stats["transitions"] += 1
                yield dict(program=[list(a) for a in wrap_steps(p)], profile=prof, steps=True, flag=(i + j + 1) % 2)
    if tier != "quick":
        # deeper programs under two timing profiles
        if subset == "small":
            deep = deep[::3]
        elif subset == "smaller":
            deep = deep[::6]
        for i, (p, kind) in enumerate(deep):
            for j, prof in enumerate((PROFILES_QUICK[0], PROFILES_QUICK[1])):
                stats["transitions"] += 1
                yield dict(program=[list(a) for a in p], profile=prof, steps=False, flag=(i + j) % 2)
    # CUDA-event synchronisation programs (cudaEventRecord / cudaStreamWaitEvent / cudaEventSynchronize)
    yield from _event_worlds(evprogs, profiles, stats)


def _event_worlds(evprogs, profiles, stats):
    for i, p in enumerate(evprogs):
        for j, prof in enumerate(profiles[:2]):
            stats["transitions"] += 1
            yield dict(program=[list(a) for a in p], profile=prof, steps=False, flag=(i + j) % 2, events=True)


def build(world) -> List[Dict[str, Any]]:
    evs = gpusim.run([tuple(a) for a in world["program"]], world["profile"])
    if world.get("second_thread"):
        from mc import kineto

        evs.append(kineto.cpu_op("aten::other_thread_leaf", gpusim.E0 + 1, world["second_thread"], tid=101, ext=999))
    if world.get("second_process"):
        from mc import kineto

        t0 = min(e["ts"] for e in evs if e["pid"] != 0 and e["name"] != "aten::root")
        evs.append(kineto.cpu_op("aten::other_process_a", t0, 6, tid=kineto.MAIN_TID, pid=200, ext=997))
        evs.append(kineto.cpu_op("aten::other_process_b", t0 + 7, 30, tid=kineto.MAIN_TID, pid=200, ext=998))
    if world.get("overhang"):
        # rounding artefact the analysis tolerates: the last event nested in an operator ends one unit after the operator
        ops = [e for e in evs if e["pid"] != 0 and e["name"].startswith("aten::op")]
        for p_ in ops:
            inner = [c for c in evs if c is not p_ and c["pid"] == p_["pid"] and c["tid"] == p_["tid"] and c.get("cat") in ("cpu_op", "cuda_runtime")
                     and p_["ts"] <= c["ts"] and c["ts"] + c["dur"] <= p_["ts"] + p_["dur"]]
            if inner:
                c = max(inner, key=lambda e: (e["ts"] + e["dur"], e["ts"]))
                c["dur"] = p_["ts"] + p_["dur"] + 1 - c["ts"]
                break
    if world.get("file_order") == "device-reversed":
        host = [e for e in evs if e["pid"] != 0]
        dev = [e for e in evs if e["pid"] == 0]
        evs = host + dev[::-1]
    return evs


def windows(world) -> List[Tuple[str, Any]]:
    w: List[Tuple[str, Any]] = [("", None)]
    if world["steps"]:
        w += [("ProfilerStep", None), ("ProfilerStep", 0), ("ProfilerStep", 1), ("ProfilerStep", (0, 1))]
        if any(a[0] == "op" for a in world["program"]):
            w += [("aten::op0", (0, 1))]
    if any(a[0] == "op" for a in world["program"]) and not world["steps"]:
        w += [("aten::op0", None), ("aten::op0", 0)]
    return w


RANK0_OTHER_LAYOUT = [("op", "aten::outer"), ("op", "aten::inner"), ("launch", 9), ("end",), ("launch", 7), ("end",), ("ssync", 7), ("dsync",)]


def load(world):
    """(ta, rank, rows_of_rank, time_shift): single-rank load, or the world as rank 1 next to a fixed rank 0"""
    from mc import htaenv

    evs = build(world)
    if world.get("as_rank1"):
        evs0 = gpusim.run(RANK0_OTHER_LAYOUT, PROFILES_QUICK[0])
        ta, _ = htaenv.load_world({0: evs0, 1: evs})
        m = min(r["ts"] for r in refmodel.parse_rows(evs0) + refmodel.parse_rows(evs))
        return ta, 1, evs, m
    ta, _ = htaenv.load_world({0: evs})
    if world.get("prior_decode"):
        ta.t.decode_symbol_ids(use_shorten_name=False)   # an earlier, legitimate call of the session
    return ta, 0, evs, min(r["ts"] for r in refmodel.parse_rows(evs))


def analyse(ta, annotation: str, instance, flag: int, rank: int = 0):
    os.environ["CRITICAL_PATH_ADD_ZERO_WEIGHT_LAUNCH_EDGE"] = "1" if flag else "0"
    try:
        return ta.critical_path_analysis(rank=rank, annotation=annotation, instance_id=instance)
    finally:
        os.environ.pop("CRITICAL_PATH_ADD_ZERO_WEIGHT_LAUNCH_EDGE", None)


def expected_window_ids(rows, m: int, annotation: str, instance, kept_ids) -> Optional[set]:
    """ids of the clipped frame: host events (stream -1) with positive duration starting inside the window, and stream
    events whose linked host call is such an event. rows = reference rows of kept events; times in file base."""
    rows = [r for r in rows if r["id"] in kept_ids]
    lk = refmodel.links(rows)
    by = {r["id"]: r for r in rows}
    if annotation == "":
        start, end = min(r["ts"] for r in rows), max(r["ts"] + r["dur"] for r in rows)
    else:
        anns = [r for r in rows if annotation in r["name"]]
        if instance is None:
            lo, hi = 0, 0
        elif isinstance(instance, (tuple, list)):
            lo, hi = instance
        else:
            lo, hi = instance, instance
        sel = anns[lo: hi + 1]
        if not sel:
            return None
        start, end = min(r["ts"] for r in sel), max(r["ts"] + r["dur"] for r in sel)
    host = {r["id"] for r in rows if r["stream"] == -1 and r["dur"] > 0 and start <= r["ts"] <= end}
    dev = {r["id"] for r in rows if r["stream"] != -1 and lk[r["id"]] > 0 and lk[r["id"]] in host}
    return host | dev


def graphs_for(world, ta, windows_subset=None, rank: int = 0):
    """yield (ctx, graph) for every window / flag of the world on which the analysis succeeds"""
    for (ann, inst) in (windows_subset or windows(world)):
        for flag in ((world["flag"],) if ann else (0, 1)):
            res = analyse(ta, ann, inst, flag, rank)
            if res is None:
                continue
            g, ok = res
            if ok:
                yield dict(annotation=ann, instance=inst, flag=flag, program=world["program"], profile=world["profile"],
                           file_order=world.get("file_order")), g


def longest_path_weight(g, attr: str = "weight"):
    """maximum total weight over all paths of the DAG (own dynamic programme over a DFS post-order)"""
    adj: Dict[int, List[Tuple[int, float]]] = {}
    for u, v in g.edges:
        adj.setdefault(u, []).append((v, g.edges[u, v][attr]))
    best: Dict[int, float] = {}

    def dfs(u):
        if u in best:
            return best[u]
        best[u] = 0  # (graphs are acyclic: checked by C08)
        b = 0
        for v, w in adj.get(u, []):
            b = max(b, w + dfs(v))
        best[u] = b
        return b

    return max([dfs(u) for u in list(g.nodes)] + [0])
