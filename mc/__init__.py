"""Bounded-exhaustive explorer for HolisticTraceAnalysis (see /verif/DESIGN.md)."""
