"""Helpers that run inside worker processes (hta importable)."""
from __future__ import annotations

import copy
import os
from typing import Any, Dict, List, Optional

from mc import kineto

_SCRATCH: Optional[kineto.Scratch] = None


def scratch() -> kineto.Scratch:
    global _SCRATCH
    if _SCRATCH is None or _SCRATCH.pid != os.getpid():
        import atexit

        _SCRATCH = kineto.Scratch()
        _SCRATCH.pid = os.getpid()
        atexit.register(_SCRATCH.close)
    return _SCRATCH


def load_dir(d: str, include_last: bool = False, use_mp: bool = False):
    """TraceAnalysis over directory d through the public loader (sequential parse unless use_mp)."""
    from hta.trace_analysis import TraceAnalysis
    from hta.common.trace import Trace

    ta = TraceAnalysis.__new__(TraceAnalysis)
    ta.t = Trace(trace_dir=d)
    ta.t.load_traces(include_last, use_multiprocessing=use_mp)
    assert ta.t.is_parsed
    return ta


def load_world(ranks: Dict[int, List[Dict[str, Any]]], include_last: bool = False, fmt: str = "json",
               use_mp: bool = False, keep: bool = False):
    """Materialise rank -> events into files and load them. Returns (ta, dir)."""
    sc = scratch()
    d = sc.fresh()
    kineto.write_world(d, ranks, fmt)
    try:
        ta = load_dir(d, include_last, use_mp)
    except Exception:
        sc.drop(d)
        raise
    if not keep:
        sc.drop(d)
    return ta, d


def sub_trace(ta, ids: Dict[int, List[int]]):
    """A TraceAnalysis whose per-rank frames are row subsets (by event id, in the given order) of a
    loaded one.  This is what trimming / user-side filtering hands to the analyzers."""
    t2 = copy.copy(ta.t)
    t2.traces = {r: ta.t.traces[r].loc[list(i)].copy() for r, i in ids.items()}
    ta2 = copy.copy(ta)
    ta2.t = t2
    return ta2


PRIOR_KINDS = ("cp", "decode", "getters")


def prior_session(ta, kind: str) -> None:
    """Earlier use of the same TraceAnalysis object, as in a notebook session; its outcome is not judged, only that
    the analysis under test still sees the loaded trace afterwards."""
    import contextlib
    import io

    def quiet(f, *a, **k):
        try:
            with contextlib.redirect_stdout(io.StringIO()):
                f(*a, **k)
        except Exception:
            pass

    if kind == "cp":
        # critical path of the window of the first launch call: the analysis works on a clipped copy of the trace
        quiet(ta.critical_path_analysis, rank=0, annotation="cudaLaunchKernel", instance_id=0)
    elif kind == "decode":
        quiet(ta.t.decode_symbol_ids, use_shorten_name=True)
    elif kind == "getters":
        quiet(ta.get_temporal_breakdown, visualize=False)
        quiet(ta.get_gpu_kernel_breakdown, visualize=False)
        quiet(ta.get_idle_time_breakdown, visualize=False)
        quiet(ta.get_comm_comp_overlap, visualize=False)
        quiet(ta.get_cuda_kernel_launch_stats, visualize=False)
        quiet(ta.get_queue_length_summary)
        quiet(ta.get_memory_bw_summary)
    else:
        raise ValueError(kind)
