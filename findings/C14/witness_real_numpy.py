"""Witness for the C14 tie-order finding on the *real* code, without the explorer's sort seam:
N launch/kernel pairs on one stream whose kernel starts at its launch call's timestamp.  The
queue-length series sorts launch (+1) and start (-1) rows by ts only, with NumPy's default
(unstable) sort, and dips below zero although no activity starts before its launch call.
usage: /venv/bin/python witness_real_numpy.py [N ...]   exit 1 if a negative value was observed."""
import json, os, sys, tempfile, shutil
sys.path.insert(0, os.environ.get("VERIF_REPO", "/repo"))
import logging; logging.disable(logging.CRITICAL)
import warnings; warnings.filterwarnings("ignore")
from hta.trace_analysis import TraceAnalysis

def world(n):
    evs = [{"ph": "X", "cat": "cpu_op", "name": "aten::root", "pid": 100, "tid": 100, "ts": 999, "dur": 1, "args": {"External id": 0}}]
    for i in range(n):
        t = 1000 + 2 * i
        evs.append({"ph": "X", "cat": "cuda_runtime", "name": "cudaLaunchKernel", "pid": 100, "tid": 100, "ts": t, "dur": 1,
                    "args": {"correlation": 50 + i, "External id": 50 + i, "cbid": 211}})
        evs.append({"ph": "X", "cat": "kernel", "name": "k", "pid": 0, "tid": 7, "ts": t, "dur": 1,
                    "args": {"stream": 7, "correlation": 50 + i, "device": 0, "context": 1}})
    return {"schemaVersion": 1, "distributedInfo": {"rank": 0}, "traceEvents": evs}

bad = False
for n in [int(a) for a in sys.argv[1:]] or [2, 4, 8, 16, 32, 64]:
    d = tempfile.mkdtemp()
    try:
        json.dump(world(n), open(os.path.join(d, "r0.json"), "w"))
        q = TraceAnalysis(trace_dir=d).get_queue_length_time_series()[0]
        mn = int(q["queue_length"].min())
        print(f"pairs={n} min queue_length={mn}")
        bad |= mn < 0
    finally:
        shutil.rmtree(d)
sys.exit(1 if bad else 0)
