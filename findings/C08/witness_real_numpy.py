"""Witness on the real code (no sort seam) for the C08 tie-order finding: N groups of (zero-length kernel, kernel
starting at the same instant on the same stream; by default the later kernel is written first in the file, which
is legal: Kineto does not write events in time order). With the kernels sorted by start only (unstable sort) a
kernel-to-kernel edge with negative weight / a cycle appears.  usage: VERIF_REPO=<tree> python witness_real_numpy.py [N..]"""
import json, os, sys, tempfile, shutil
sys.path.insert(0, os.environ.get("VERIF_REPO", "/repo"))
import logging; logging.disable(logging.CRITICAL)
import warnings; warnings.filterwarnings("ignore")
from hta.trace_analysis import TraceAnalysis

def X(cat, name, pid, tid, ts, dur, args): return {"ph": "X", "cat": cat, "name": name, "pid": pid, "tid": tid, "ts": ts, "dur": dur, "args": args}
def world(n):
    evs = [X("cpu_op", "aten::root", 100, 100, 990, 3, {})]
    t, c = 1000, 10
    for i in range(n):
        ks = []
        for dur in (0, 3):
            evs.append(X("cuda_runtime", "cudaLaunchKernel", 100, 100, t, 1, {"correlation": c, "cbid": 211}))
            ks.append(X("kernel", "k", 0, 7, 1000 + 10 * i + 5, dur, {"stream": 7, "correlation": c, "device": 0, "context": 1}))
            c += 1; t += 1
        evs += ks[::-1] if os.environ.get("FILE_ORDER", "rev") == "rev" else ks   # rev: the later kernel is written first
        t = 1000 + 10 * (i + 1)
    return {"schemaVersion": 1, "distributedInfo": {"rank": 0}, "traceEvents": evs}

bad = False
for n in [int(a) for a in sys.argv[1:]] or [2, 8, 16, 32]:
    d = tempfile.mkdtemp()
    try:
        json.dump(world(n), open(os.path.join(d, "r0.json"), "w"))
        ta = TraceAnalysis(trace_dir=d)
        try:
            g, ok = ta.critical_path_analysis(rank=0, annotation="", instance_id=None)
            neg = [g.edges[u, v]["object"] for u, v in g.edges if g.edges[u, v]["object"].weight < 0]
            print(f"groups={n} success={ok} negative-weight edges={len(neg)}")
            bad |= bool(neg) or not ok
        except Exception as ex:
            print(f"groups={n} raised {type(ex).__name__}: {str(ex)[:80]}"); bad = True
    finally:
        shutil.rmtree(d)
sys.exit(1 if bad else 0)
